"""C23 Operation groups from any account kind are signed and hashed per protocol -- plumbing (ideal primitives)."""
from harness import C07, cryptostub, opnode
from vf.core import Ob

TARGETS = ['pytezos.operation.group.OperationGroup.sign', 'pytezos.operation.group.OperationGroup.hash', 'pytezos.operation.group.OperationGroup.binary_payload',
           'pytezos.operation.group.OperationGroup.forge (hex round trip)', 'pytezos.rpc.kind.validation_passes', 'pytezos.crypto.key.Key.sign(generic=True)', 'pytezos.crypto.key.Key.verify',
           'pytezos.michelson.forge.forge_base58', 'pytezos.crypto.encoding.base58_encode/base58_decode']
STUBS = cryptostub.STUBS + ['forge_operation_group inside group.py -> arbitrary symbolic bytes (every forged operation is some byte string; the forging itself is C06)']
BOUNDS = {'quick': 'every operation kind of pytezos.rpc.kind.validation_passes as the (first) content, groups of 1..2 contents of one validation pass, 4 key curves; forged bytes: symbolic, 1..3 bytes; '
                   'chain id: symbolic 4-byte payload; secret: symbolic 32 bytes',
          'thorough': 'forged bytes up to 8'}
OUTSIDE = ['that the primitives produce valid signatures / digests (ideal stand-ins)', 'the forged bytes themselves (C06)']
ASSUMPTIONS = ['watermark rule of the property: 0x02 + chain id for consensus operations (validation pass 0), 0x03 otherwise',
               'hash = base58 "o" of Blake2b-256 over forged bytes followed by the raw signature']

CURVE_OF = {'tz1': 'ed', 'tz2': 'sp', 'tz3': 'p2', 'tz4': 'BL'}


def sym_sign(P, ex):
    import pytezos.crypto.key as K
    import pytezos.operation.group as G
    from pytezos.context.impl import ExecutionContext
    from vf import bvx

    curve = CURVE_OF[P['key']]
    kinds = P['kinds']
    with cryptostub.env(ex, kinds=['Net'], extra_modules=(G,)) as (c, b):
        secret, key = C07._mk_key(K, ex, curve)
        forged = ex.bytes('forged', P['n'])
        saved = G.forge_operation_group
        G.forge_operation_group = lambda payload: forged
        try:
            chain_text = b.text('Net')
            chain_payload = b.payload('Net')
            ctx = ExecutionContext(key=key)
            opg = G.OperationGroup(context=ctx, contents=[{'kind': k} for k in kinds], chain_id=chain_text if P.get('chain', True) else None, branch=opnode.BRANCH)
            if P.get('derived'):
                # the group is derived from one that was already sent (it carries that group's hash) and is extended before signing
                opg = G.OperationGroup(context=ctx, contents=[{'kind': kinds[0]}], chain_id=chain_text, branch=opnode.BRANCH, signature=b.other('sig', ex.bytes('old_sig', 64)),
                                       opg_hash=b.other('o', ex.bytes('old_hash', 32)))
                for k in kinds[1:]:
                    opg = opg.operation({'kind': k})
            signed = opg.sign()
            from pytezos.rpc.kind import validation_passes

            consensus = validation_passes[kinds[0]] == 0
            watermark = (bvx.SymBytes([2]) + chain_payload) if consensus else bvx.SymBytes([3])
            expected = watermark + forged
            call = C07._expect_sign_input(ex, c, K, curve, secret, expected)
            sig = C07._sig_bytes(call, curve)
            text = signed.signature
            ex.check(text in b.rep, 'signature is a base58 text')
            (h, L, Pfx, n), payload = b.rep[text]
            ex.check(h == (b'BLsig' if curve == 'BL' else b'sig'), 'generic signature encoding (BLsig for tz4)')
            ex.check(len(payload) == len(sig) and (payload == sig), 'the signature field carries the primitive output')
            ex.check(C07._verdict(lambda: key.verify(text, expected)), 'the signature verifies over the watermarked forged bytes')
            # hash
            hs = signed.hash()
            ex.check(hs in b.rep, 'hash is a base58 text')
            (h2, L2, P2, n2), digest = b.rep[hs]
            ex.check(h2 == b'o' and n2 == 32, 'operation hash kind "o"')
            org = c.origin_of(digest)
            ex.check(org is not None and org[0] == 'blake2b-256' and len(org[1][1]) == 0, 'hash is an unkeyed Blake2b-256 digest')
            pre = org[1][0]
            want = forged + sig
            ex.check(len(pre) == len(want) and (pre == want), 'digest taken over forged bytes followed by the raw signature')
            bp = signed.binary_payload()
            ex.check(len(bp) == len(want) and (bp == want), 'binary payload = forged bytes + raw signature')
        finally:
            G.forge_operation_group = saved


def sym_mixed(P, ex):
    """Groups mixing validation passes are refused; consensus operations without a chain id are refused."""
    import pytezos.crypto.key as K
    import pytezos.operation.group as G
    from pytezos.context.impl import ExecutionContext

    with cryptostub.env(ex, kinds=['Net'], extra_modules=(G,)) as (c, b):
        secret, key = C07._mk_key(K, ex, 'ed')
        forged = ex.bytes('forged', 1)
        saved = G.forge_operation_group
        G.forge_operation_group = lambda payload: forged
        try:
            opg = G.OperationGroup(context=ExecutionContext(key=key), contents=[{'kind': k} for k in P['kinds']], chain_id=b.text('Net') if P.get('chain', True) else None,
                                   branch=opnode.BRANCH)
            try:
                opg.sign()
                ok = True
            except ValueError:
                ok = False
            ex.check(not ok, 'sign() refuses the group')
            ex.check(c.count('ed25519.sign') == 0, 'nothing was signed')
        finally:
            G.forge_operation_group = saved


def _real_group(P, w):
    from pytezos.crypto.encoding import base58_encode
    from pytezos.operation.group import OperationGroup

    curve = CURVE_OF[P['key']] if 'key' in P else 'ed'
    from pytezos.context.impl import ExecutionContext
    from pytezos.crypto.key import Key

    key = Key.from_secret_exponent(C07.real_secret(curve, w.get('secret')), curve=C07.CURVES[curve])
    chain = base58_encode(bytes(w.get('payload:Net', b'\x00' * 4))[:4].ljust(4, b'\x00'), b'Net').decode()
    contents = []
    for k in P['kinds']:
        contents.append(CONTENTS[k](key) if all(x in CONTENTS for x in P['kinds']) else {'kind': k})
    return key, chain, OperationGroup(context=ExecutionContext(key=key), contents=contents, chain_id=chain if P.get('chain', True) else None, branch=opnode.BRANCH)


def _manager(kind, **kw):
    def mk(key):
        d = {'kind': kind, 'source': key.public_key_hash(), 'fee': '1000', 'counter': '7', 'gas_limit': '1000', 'storage_limit': '0'}
        d.update({k: (v(key) if callable(v) else v) for k, v in kw.items()})
        return d
    return mk


BH = 'BKpbfCvh777DQHnXjU2sqHvVUNZ7dBAdqEfKkdw8EGSkD9LSYXb'
PROTO = 'PsRiotumaAMotcRoDWW1bysEhQy2n1M5fy8JgRp8jjRfHGmfeA7'
CONTENTS = {
    'endorsement': lambda key: {'kind': 'endorsement', 'level': 10},
    'proposals': lambda key: {'kind': 'proposals', 'source': key.public_key_hash(), 'period': 1, 'proposals': [PROTO]},
    'ballot': lambda key: {'kind': 'ballot', 'source': key.public_key_hash(), 'period': 1, 'proposal': PROTO, 'ballot': 'yay'},
    'seed_nonce_revelation': lambda key: {'kind': 'seed_nonce_revelation', 'level': 10, 'nonce': '00' * 32},
    'activate_account': lambda key: {'kind': 'activate_account', 'pkh': 'tz1VSUr8wwNhLAzempoch5d6hLRiTh8Cjcjb', 'secret': '00' * 20},
    'failing_noop': lambda key: {'kind': 'failing_noop', 'arbitrary': 'hello'},
    'reveal': _manager('reveal', public_key=lambda key: key.public_key()),
    'transaction': _manager('transaction', amount='1', destination='tz1VSUr8wwNhLAzempoch5d6hLRiTh8Cjcjb'),
    'delegation': _manager('delegation'),
    'register_global_constant': _manager('register_global_constant', value={'prim': 'Unit'}),
    'smart_rollup_add_messages': _manager('smart_rollup_add_messages', message=['0102']),
}


def conc_sign(P, w):
    """Replay with the real libraries and the real forging: sign, verify over watermark + forged, recompute the hash independently."""
    import hashlib

    import base58

    problems = []
    import pytezos.operation.group as G

    saved = G.forge_operation_group
    note = 'real forging'
    if not all(x in CONTENTS for x in P['kinds']):
        # no concrete template for this kind: the forged bytes of the witness stand in for the forging (C06), everything else is real
        fb = bytes(w.get('forged', b'\x00'))
        G.forge_operation_group = lambda payload: fb
        note = 'forged bytes taken from the witness'
    try:
        res = dict(_conc_sign(P, w), note=note)
        if res['ok'] and P.get('key') == 'tz3' and not P.get('refuse'):
            # the witness constrains the primitive output (r, s); real ECDSA output cannot be chosen, so other keys are tried until one signature has that shape
            base = int.from_bytes(C07.real_secret('p2', w.get('secret')), 'big')
            for i in range(1, 1500):
                w2 = dict(w, secret=((base + i) % C07.ORDERS['p2'] or 1).to_bytes(32, 'big'))
                r2 = _conc_sign(P, w2)
                if not r2['ok']:
                    return dict(r2, note=note + f'; reproduced with secret + {i}', secret={'hex': w2['secret'].hex()})
        return res
    finally:
        G.forge_operation_group = saved


def _conc_sign(P, w):
    import hashlib

    import base58

    problems = []
    try:
        key, chain, opg = _real_group(P, w)
        from pytezos.rpc.kind import validation_passes

        if P.get('derived'):
            first = opg._spawn(contents=opg.contents[:1]).sign()
            sent = first._spawn(opg_hash=first.hash())
            opg = sent
            for c_ in _real_group(P, w)[2].contents[1:]:
                opg = opg.operation(c_)

        if P.get('refuse'):
            try:
                opg.sign()
                problems.append('sign() accepted the group')
            except ValueError:
                pass
            return {'ok': not problems, 'observed': problems}
        signed = opg.sign()
        forged = bytes.fromhex(signed.forge())
        consensus = validation_passes[P['kinds'][0]] == 0
        wm = (b'\x02' + base58.b58decode_check(chain)[3:]) if consensus else b'\x03'
        try:
            if not key.verify(signed.signature, wm + forged):
                problems.append('signature does not verify over watermark + forged bytes')
        except ValueError as e:
            problems.append(f'signature does not verify over watermark + forged bytes ({e})')
        raw = base58.b58decode_check(signed.signature)
        raw = raw[4:] if signed.signature.startswith('BLsig') else raw[3:]
        want = base58.b58encode_check(bytes([5, 116]) + hashlib.blake2b(forged + raw, digest_size=32).digest()).decode()
        if signed.hash() != want:
            problems.append(f'hash {signed.hash()} != {want}')
    except Exception as e:  # noqa
        problems.append(f'{type(e).__name__}: {e}')
    return {'ok': not problems, 'observed': problems[:3]}


def obligations(tier):
    q = tier == 'quick'
    from pytezos.rpc.kind import validation_passes

    obs = []
    sizes = (1, 3) if q else (1, 2, 3, 8)
    kinds = list(validation_passes)
    for keyk in CURVE_OF:
        for kind in kinds:
            for n in (sizes if kind in ('endorsement', 'transaction', 'failing_noop') else sizes[:1]):
                P = {'key': keyk, 'kinds': [kind], 'n': n}
                obs.append(Ob(f'sign/{keyk}/{kind}/forged={n}', 'bvx', sym_sign, conc_sign, P, timeout=120, opts={'W': C07.W}, targets=TARGETS, stubs=STUBS,
                              bounds=f'group [{kind}] from a {keyk} account; symbolic secret, chain id and {n} forged bytes'))
        for pair in (['reveal', 'transaction'], ['proposals', 'ballot'], ['endorsement', 'endorsement_with_slot']):
            P = {'key': keyk, 'kinds': pair, 'n': 2}
            obs.append(Ob(f'sign/{keyk}/{"+".join(pair)}/forged=2', 'bvx', sym_sign, conc_sign, P, timeout=120, opts={'W': C07.W}, targets=TARGETS, stubs=STUBS,
                          bounds=f'group {pair} from a {keyk} account'))
    for keyk in ('tz1', 'tz4'):
        P = {'key': keyk, 'kinds': ['reveal', 'transaction'], 'n': 2, 'derived': True}
        obs.append(Ob(f'sign/{keyk}/derived-from-a-sent-group', 'bvx', sym_sign, conc_sign, P, timeout=120, opts={'W': C07.W}, targets=TARGETS, stubs=STUBS,
                      bounds='a group that already carries a signature and a hash (symbolic) is extended by one content, signed again and hashed'))
    for pair in (['transaction', 'ballot'], ['endorsement', 'transaction'], ['failing_noop', 'transaction'], ['activate_account', 'reveal']):
        obs.append(Ob(f'refuse/mixed/{"+".join(pair)}', 'bvx', sym_mixed, conc_sign, {'kinds': pair, 'refuse': True}, timeout=60, opts={'W': 64}, targets=TARGETS, stubs=STUBS,
                      bounds='contents of different validation passes'))
    obs.append(Ob('refuse/consensus-without-chain-id', 'bvx', sym_mixed, conc_sign, {'kinds': ['endorsement'], 'chain': False, 'refuse': True}, timeout=60, opts={'W': 64}, targets=TARGETS, stubs=STUBS,
                  bounds='consensus operation, chain id undefined'))
    return obs
