"""C01 Interpreter computes Michelson results for well-typed programs (and C02: result types)."""
from harness import mbv, mich
from vf.core import Ob

TARGETS = ['pytezos.michelson.instructions.stack.*', 'pytezos.michelson.instructions.control.*', 'pytezos.michelson.instructions.adt.*',
           'pytezos.michelson.instructions.struct.*', 'pytezos.michelson.instructions.generic.*', 'pytezos.michelson.instructions.tezos.* (environment)',
           'pytezos.michelson.instructions.crypto.* (hash instructions)', 'pytezos.michelson.stack.MichelsonStack (protect/restore)',
           'pytezos.michelson.program.MichelsonProgram.begin/execute/end', 'pytezos.michelson.repl.Interpreter.run_code', 'pytezos.context.impl.ExecutionContext getters']
STUBS = ['format_stdout / repr -> no-op', 'hash functions (blake2b, sha256, sha512, sha3_256, Keccak256) -> tagged uninterpreted token (which function on which bytes)',
         'str(int)/int(str) -> opaque decimal token']
BOUNDS = {'quick': 'one obligation per template (about 110 instruction/program templates); every stack value symbolic: ints unbounded, strings/bytes <= 2, lists <= 2, '
                   'option/or tags symbolic; LOOP counters <= 3; environment (amount, balance, now, level) symbolic, addresses/chain id solver-chosen from real values',
          'thorough': 'strings/bytes <= 3, lists <= 3, LOOP counters <= 5'}
OUTSIDE = ['arithmetic, comparison, set/map, ticket, PACK and macro behaviour in depth (C16, C03, C14, C20, C04, C19)', 'sapling, OPEN_CHEST, VIEW, CONTRACT with a live shell, gas',
           'BLS instructions (C21)', 'FAILWITH payload comparison (only failure vs non-failure is compared)']
ASSUMPTIONS = ['reference semantics: ref/michelson.py (typed reference interpreter), validated against the Octez-derived vectors of tests/.../test_opcodes.py that fall into its instruction set']

ADDRS = ['tz1VSUr8wwNhLAzempoch5d6hLRiTh8Cjcjb', 'KT1BEqzn5Wx8uJrZNvuS9DVHmLvG9td3fDLi', 'tz3WXYtyDUNL91qfiCJtVUX746QpNv5i5ve5']
CHAINS = ['NetXdQprcVkpaWU', 'NetXynUjJNZm7wi']


def P(prim, *args):
    e = {'prim': prim}
    if args:
        e['args'] = list(args)
    return e


def ty(s):
    return mich.strip_annots(mich.texpr(s))


def push(t, lit):
    return P('PUSH', ty(t), lit)


I = lambda n: {'int': str(n)}   # noqa
S = lambda s: {'string': s}     # noqa

# (name, input stack types (top first), code, options)
TEMPLATES = [
    ('DROP', ['int', 'nat'], [P('DROP')]),
    ('DROP 2', ['int', 'nat', 'string'], [P('DROP', I(2))]),
    ('DROP 0', ['int'], [P('DROP', I(0))]),
    ('DUP', ['int', 'nat'], [P('DUP')]),
    ('DUP 1', ['int', 'nat'], [P('DUP', I(1))]),
    ('DUP 2', ['int', 'nat', 'string'], [P('DUP', I(2))]),
    ('DUP 3', ['int', 'nat', 'string'], [P('DUP', I(3))]),
    ('SWAP', ['int', 'nat', 'string'], [P('SWAP')]),
    ('DIG 0', ['int', 'nat'], [P('DIG', I(0))]),
    ('DIG 1', ['int', 'nat', 'string'], [P('DIG', I(1))]),
    ('DIG 2', ['int', 'nat', 'string', 'bool'], [P('DIG', I(2))]),
    ('DUG 0', ['int', 'nat'], [P('DUG', I(0))]),
    ('DUG 1', ['int', 'nat', 'string'], [P('DUG', I(1))]),
    ('DUG 2', ['int', 'nat', 'string', 'bool'], [P('DUG', I(2))]),
    ('DIG 2;DUG 2', ['int', 'nat', 'string'], [P('DIG', I(2)), P('DUG', I(2))]),
    ('DIP{DROP}', ['int', 'nat', 'string'], [P('DIP', [P('DROP')])]),
    ('DIP 2{SWAP}', ['int', 'nat', 'string', 'bool'], [P('DIP', I(2), [P('SWAP')])]),
    ('DIP 0{DROP}', ['int', 'nat'], [P('DIP', I(0), [P('DROP')])]),
    ('DIP{DUP 2}', ['int', 'nat', 'string', 'bool'], [P('DIP', [P('DUP', I(2))])]),
    ('DIP 2{DUP 2}', ['int', 'nat', 'string', 'bool', 'bytes'], [P('DIP', I(2), [P('DUP', I(2))])]),
    ('DIP{DIG 2}', ['int', 'nat', 'string', 'bool', 'bytes'], [P('DIP', [P('DIG', I(2))])]),
    ('DIP{DUG 2}', ['int', 'nat', 'string', 'bool', 'bytes'], [P('DIP', [P('DUG', I(2))])]),
    ('DIP{DIP{DUP}}', ['int', 'nat', 'string'], [P('DIP', [P('DIP', [P('DUP')])])]),
    ('DIP{DIP 2{DROP}}', ['int', 'nat', 'string', 'bool'], [P('DIP', [P('DIP', I(2), [P('DROP')])])]),
    ('DIP{PUSH;SWAP};DUP 3', ['int', 'nat'], [P('DIP', [push('int', I(7)), P('SWAP')]), P('DUP', I(3))]),
    ('DIP{DIP{DUP 2};DIG 2}', ['int', 'nat', 'string', 'bool'], [P('DIP', [P('DIP', [P('DUP', I(2))]), P('DIG', I(2))])]),
    ('PUSH int', [], [push('int', I(-5))]),
    ('PUSH pair', [], [push('pair int (pair nat string)', P('Pair', I(1), I(2), S('a')))]),
    ('PUSH option', [], [push('option nat', P('Some', I(3)))]),
    ('PUSH list', [], [push('list int', [I(1), I(2)])]),
    ('IF', ['bool', 'int'], [P('IF', [push('int', I(1)), P('ADD')], [P('NEG')])]),
    ('IF_NONE', ['option int', 'int'], [P('IF_NONE', [], [P('ADD')])]),
    ('IF_NONE nested', ['option (option int)'], [P('IF_NONE', [push('int', I(0))], [P('IF_NONE', [push('int', I(1))], [])])]),
    ('IF_LEFT', ['or int nat'], [P('IF_LEFT', [P('NEG')], [P('INT')])]),
    ('IF_CONS', ['list int', 'int'], [P('IF_CONS', [P('DIP', [P('DROP')]), P('ADD')], [])]),
    ('LOOP countdown', ['int', 'int'], [P('DUP'), P('GT'), P('LOOP', [push('int', I(1)), P('SWAP'), P('SUB'), P('DIP', [push('int', I(3)), P('ADD')]), P('DUP'), P('GT')])], {'loop': 'v0'}),
    ('LOOP_LEFT', ['or int string'], [P('LOOP_LEFT', [P('DUP'), P('GT'), P('IF', [push('int', I(1)), P('SWAP'), P('SUB'), P('LEFT', ty('string'))], [P('DROP'), push('string', S('done')), P('RIGHT', ty('int'))])])], {'loopleft': 'v0'}),
    ('ITER sum', ['list int', 'int'], [P('ITER', [P('ADD')])]),
    ('ITER cons (reverse)', ['list int'], [P('NIL', ty('int')), P('SWAP'), P('ITER', [P('CONS')])]),
    ('MAP +1', ['list int'], [P('MAP', [push('int', I(1)), P('ADD')])]),
    ('MAP uses stack below', ['list int', 'int'], [P('MAP', [P('DIP', [P('DUP')]), P('ADD')])]),
    ('MAP changes the element type', ['list int'], [P('MAP', [P('DROP'), push('string', S('x'))])], {'map_retypes': True}),
    ('MAP to pair', ['list nat'], [P('MAP', [P('DUP'), P('PAIR')])], {'map_retypes': True}),
    ('MAP over map swaps the value pair', ['map string (pair nat int)'], [P('MAP', [P('CDR'), P('UNPAIR'), P('SWAP'), P('PAIR')])], {'map_retypes': True}),
    ('MAP over map wraps the value', ['map int nat'], [P('MAP', [P('CDR'), P('SOME')])], {'map_retypes': True}),
    ('MAP over map with pair keys', ['map (pair int nat) int'], [P('MAP', [P('UNPAIR'), P('CAR'), P('ADD')])]),
    ('GET on map of strings', ['int', 'map int string'], [P('GET')]),
    ('GET on map of bools', ['nat', 'map nat bool'], [P('GET')]),
    ('GET on map of lists', ['int', 'map int (list int)'], [P('GET')]),
    ('GET on map of options', ['int', 'map int (option nat)'], [P('GET')]),
    ('MEM on map', ['int', 'map int string'], [P('MEM')]),
    ('MEM on set', ['int', 'set int'], [P('MEM')]),
    ('UPDATE on map', ['int', 'option string', 'map int string'], [P('UPDATE')]),
    ('UPDATE on set', ['nat', 'bool', 'set nat'], [P('UPDATE')]),
    ('GET_AND_UPDATE on map', ['int', 'option bool', 'map int bool'], [P('GET_AND_UPDATE')]),
    ('EMPTY_MAP then UPDATE then GET', ['string', 'int'], [P('SOME'), P('SWAP'), P('DUP'), P('DUG', I(2)), P('EMPTY_MAP', ty('int'), ty('string')), P('DUG', I(2)), P('UPDATE'), P('SWAP'), P('GET')]),
    ('MAP over option', ['option nat'], [P('MAP', [P('INT')])]),
    ('ITER over map', ['map int int', 'int'], [P('ITER', [P('UNPAIR'), P('ADD'), P('ADD')])]),
    ('ITER over set', ['set int', 'int'], [P('ITER', [P('ADD')])]),
    ('LAMBDA;EXEC', ['int'], [P('LAMBDA', ty('int'), ty('int'), [push('int', I(1)), P('ADD')]), P('SWAP'), P('EXEC')]),
    ('LAMBDA;APPLY;EXEC', ['int', 'int'], [P('LAMBDA', ty('pair int int'), ty('int'), [P('UNPAIR'), P('SUB')]), P('SWAP'), P('APPLY'), P('SWAP'), P('EXEC')]),
    ('LAMBDA twice', ['int'], [P('LAMBDA', ty('int'), ty('int'), [P('DUP'), P('MUL')]), P('DUP'), P('DIP', [P('SWAP')]), P('SWAP'), P('EXEC'), P('EXEC')]),
    ('LAMBDA_REC body ignores the lambda', ['int'], [P('LAMBDA_REC', ty('int'), ty('int'), [P('DIP', [P('DROP')]), push('int', I(1)), P('ADD')]), P('SWAP'), P('EXEC')]),
    ('LAMBDA_REC one recursive call', ['int'], [P('LAMBDA_REC', ty('int'), ty('int'), [P('DUP'), P('EQ'), P('IF', [P('DIP', [P('DROP')])], [P('DROP'), push('int', I(0)), P('EXEC')])]), P('SWAP'), P('EXEC')]),
    ('FAILWITH', ['string', 'int'], [P('PAIR'), P('FAILWITH')]),
    ('IF;FAILWITH', ['bool', 'int'], [P('IF', [], [push('string', S('neg')), P('FAILWITH')])]),
    ('PAIR', ['int', 'nat'], [P('PAIR')]),
    ('PAIR 3', ['int', 'nat', 'string', 'bool'], [P('PAIR', I(3))]),
    ('UNPAIR', ['pair int nat', 'string'], [P('UNPAIR')]),
    ('UNPAIR 3', ['pair int (pair nat string)'], [P('UNPAIR', I(3))]),
    ('ISNAT', ['int'], [P('ISNAT')]),
    ('EDIV int by 3', ['int'], [push('int', I(3)), P('SWAP'), P('EDIV')]),
    ('EDIV int by 0', ['int'], [push('int', I(0)), P('SWAP'), P('EDIV')]),
    ('EDIV nat by nat 5', ['nat'], [push('nat', I(5)), P('SWAP'), P('EDIV')]),
    ('EDIV nat by 0', ['nat'], [push('nat', I(0)), P('SWAP'), P('EDIV')]),
    ('EDIV mutez by nat 0', ['mutez'], [push('nat', I(0)), P('SWAP'), P('EDIV')]),
    ('EDIV mutez by mutez 7', ['mutez'], [push('mutez', I(7)), P('SWAP'), P('EDIV')]),
    ('UNPAIR 2 on a 3-comb', ['pair int (pair nat string)', 'bool'], [P('UNPAIR', I(2))]),
    ('UNPAIR 2 on a 4-comb', ['pair int (pair nat (pair string bytes))'], [P('UNPAIR', I(2))]),
    ('UNPAIR 3 on a 4-comb', ['pair int (pair nat (pair string bytes))'], [P('UNPAIR', I(3))]),
    ('UNPAIR 4 on a 4-comb', ['pair int (pair nat (pair string bytes))'], [P('UNPAIR', I(4))]),
    ('PAIR 2 of 3', ['int', 'nat', 'string'], [P('PAIR', I(2))]),
    ('GET 2 on a 3-comb', ['pair int (pair nat string)'], [P('GET', I(2))]),
    ('UPDATE 0', ['bool', 'pair int (pair nat string)'], [P('UPDATE', I(0))]),
    ('UPDATE 2', ['bool', 'pair int (pair nat string)'], [P('UPDATE', I(2))]),
    ('PAIR 3;UNPAIR 3', ['int', 'nat', 'string'], [P('PAIR', I(3)), P('UNPAIR', I(3))]),
    ('CAR', ['pair int nat'], [P('CAR')]),
    ('CDR', ['pair int (pair nat string)'], [P('CDR')]),
    ('GET 0', ['pair int (pair nat string)'], [P('GET', I(0))]),
    ('GET 1', ['pair int (pair nat string)'], [P('GET', I(1))]),
    ('GET 3', ['pair int (pair nat string)'], [P('GET', I(3))]),
    ('GET 4', ['pair int (pair nat string)'], [P('GET', I(4))]),
    ('UPDATE 1', ['bool', 'pair int (pair nat string)'], [P('UPDATE', I(1))]),
    ('UPDATE 3', ['bool', 'pair int (pair nat string)'], [P('UPDATE', I(3))]),
    ('UPDATE 4', ['bool', 'pair int (pair nat string)'], [P('UPDATE', I(4))]),
    ('UPDATE 1 with a pair', ['pair bool bytes', 'pair int (pair nat string)'], [P('UPDATE', I(1))]),
    ('UPDATE 3 with a pair', ['pair bool bytes', 'pair int (pair nat string)'], [P('UPDATE', I(3))]),
    ('UPDATE 2 with a pair', ['pair bool bytes', 'pair int (pair nat string)'], [P('UPDATE', I(2))]),
    ('LEFT', ['int'], [P('LEFT', ty('nat'))]),
    ('RIGHT', ['int'], [P('RIGHT', ty('pair nat string'))]),
    ('SOME', ['pair int nat'], [P('SOME')]),
    ('NONE', ['int'], [P('NONE', ty('pair nat string'))]),
    ('UNIT', ['int'], [P('UNIT')]),
    ('NIL;CONS', ['int', 'int'], [P('NIL', ty('int')), P('SWAP'), P('CONS'), P('SWAP'), P('CONS')]),
    ('CONS', ['int', 'list int'], [P('CONS')]),
    ('SIZE list', ['list int'], [P('SIZE')]),
    ('SIZE string', ['string'], [P('SIZE')]),
    ('SIZE bytes', ['bytes'], [P('SIZE')]),
    ('CONCAT string', ['string', 'string'], [P('CONCAT')]),
    ('CONCAT bytes', ['bytes', 'bytes'], [P('CONCAT')]),
    ('CONCAT list string', ['list string'], [P('CONCAT')], {'concrete_elems': ['', 'a', 'bc']}),
    ('CONCAT list bytes', ['list bytes'], [P('CONCAT')], {'concrete_elems': [b'', b'\x00', b'\x01\xff']}),
    ('SLICE string', ['nat', 'nat', 'string'], [P('SLICE')], {'slice': True}),
    ('SLICE bytes', ['nat', 'nat', 'bytes'], [P('SLICE')], {'slice': True}),
    ('ADD int nat;NEG', ['int', 'nat'], [P('ADD'), P('NEG')]),
    ('SUB nat nat;ABS', ['nat', 'nat'], [P('SUB'), P('ABS')]),
    ('MUL;EQ', ['int', 'int'], [P('MUL'), P('EQ')]),
    ('COMPARE;LT', ['int', 'int'], [P('COMPARE'), P('LT')]),
    ('COMPARE;GE;IF', ['nat', 'nat'], [P('COMPARE'), P('GE'), P('IF', [push('string', S('ge'))], [push('string', S('lt'))])]),
    ('ADD mutez', ['mutez', 'mutez'], [P('ADD')]),
    ('SUB timestamp int', ['timestamp', 'int'], [P('SUB')]),
    ('NOT', ['bool'], [P('NOT')]),
    ('AND', ['bool', 'bool'], [P('AND')]),
    ('OR', ['bool', 'bool'], [P('OR')]),
    ('XOR;NOT', ['bool', 'bool'], [P('XOR'), P('NOT')]),
    ('AMOUNT', [], [P('AMOUNT')], {'env': True}),
    ('BALANCE', [], [P('BALANCE')], {'env': True}),
    ('NOW', [], [P('NOW')], {'env': True}),
    ('LEVEL', [], [P('LEVEL')], {'env': True}),
    ('SENDER', [], [P('SENDER')], {'env': True}),
    ('SOURCE', [], [P('SOURCE')], {'env': True}),
    ('SELF_ADDRESS', [], [P('SELF_ADDRESS')], {'env': True}),
    ('CHAIN_ID', [], [P('CHAIN_ID')], {'env': True}),
    ('AMOUNT;BALANCE;SUB?', [], [P('BALANCE'), P('AMOUNT'), P('COMPARE'), P('GT')], {'env': True}),
    ('NOW;ADD', ['int'], [P('NOW'), P('ADD')], {'env': True}),
    ('SENDER;SOURCE;PAIR', [], [P('SOURCE'), P('SENDER'), P('PAIR')], {'env': True}),
    ('BLAKE2B', ['bytes'], [P('BLAKE2B')], {'hash': True}),
    ('SHA256', ['bytes'], [P('SHA256')], {'hash': True}),
    ('SHA512', ['bytes'], [P('SHA512')], {'hash': True}),
    ('SHA3', ['bytes'], [P('SHA3')], {'hash': True}),
    ('KECCAK', ['bytes'], [P('KECCAK')], {'hash': True}),
    ('DUP;BLAKE2B;SWAP;SHA256;PAIR', ['bytes'], [P('DUP'), P('BLAKE2B'), P('SWAP'), P('SHA256'), P('PAIR')], {'hash': True}),
    ('CONCAT;SHA512', ['bytes', 'bytes'], [P('CONCAT'), P('SHA512')], {'hash': True}),
]

# whole contracts: (name, parameter type, storage type, code)
OPS = {'prim': 'operation'}
CONTRACTS = [
    ('contract/add', 'int', 'int', [P('UNPAIR'), P('ADD'), P('NIL', OPS), P('PAIR')]),
    ('contract/or', 'or int unit', 'int', [P('UNPAIR'), P('IF_LEFT', [P('ADD')], [P('DROP', I(2)), push('int', I(0))]), P('NIL', OPS), P('PAIR')]),
    ('contract/iter', 'list int', 'pair int nat', [P('UNPAIR'), P('DIP', [P('UNPAIR')]), P('ITER', [P('ADD')]), P('PAIR'), P('NIL', OPS), P('PAIR')]),
    ('contract/option', 'option nat', 'pair nat string', [P('UNPAIR'), P('IF_NONE', [], [P('DIP', [P('UNPAIR')]), P('ADD'), P('PAIR')]), P('NIL', OPS), P('PAIR')]),
    ('contract/fail', 'int', 'int', [P('UNPAIR'), P('DUP'), P('GT'), P('IF', [P('ADD')], [P('FAILWITH')]), P('NIL', OPS), P('PAIR')]),
]


class HashTok:
    """Result of an (uninterpreted) hash function: which function on which bytes."""

    def __init__(self, fn, data):
        self.fn, self.data = fn, data

    def __eq__(self, o):
        if not isinstance(o, HashTok):
            return False
        if self.fn != o.fn:
            return False
        return self.data == o.data

    def __ne__(self, o):
        from vf import bvx

        return bvx.sym_not(self.__eq__(o))

    def __len__(self):
        return 64 if self.fn == 'SHA512' else 32

    def hex(self):
        return f'<{self.fn}>'

    __hash__ = None  # type: ignore


class _hash_stubs:
    def __enter__(self):
        import pytezos.michelson.instructions.crypto as C

        self.C = C
        self.saved = {n: getattr(C, n) for n in ('blake2b_32', 'sha256', 'sha512', 'sha3_256', 'Keccak256')}

        def mk(fn):
            class H:
                def __init__(self, data=b''):
                    self.data = data

                def digest(self):
                    return HashTok(fn, self.data)

            return H

        C.blake2b_32, C.sha256, C.sha512, C.sha3_256, C.Keccak256 = mk('BLAKE2B'), mk('SHA256'), mk('SHA512'), mk('SHA3'), mk('KECCAK')
        return self

    def __exit__(self, *a):
        for n, v in self.saved.items():
            setattr(self.C, n, v)
        return False


def _rv(v):
    from ref.michelson import RV

    return RV(_abs(v), mich.type_expr(v))


def _abs(v):
    """abstraction with lambdas rendered as their code (reference representation)"""
    from pytezos.michelson import types as t

    if isinstance(v, t.LambdaType):
        return ('lambda', v.value.as_micheline_expr())
    a = mich.abstract(v)
    return a


def _deq_rv(got, exp):
    """pytezos value vs reference RV -> (values equal, types equal)"""
    from pytezos.michelson import types as t

    if isinstance(got, t.LambdaType):
        return True, mich.type_expr(got) == exp.ty      # lambda bodies are compared by running them (EXEC templates)
    return mich.deq(_abs(got), exp.abs), mich.type_expr(got) == exp.ty


def _context(src, sym):
    from pytezos.context.impl import ExecutionContext

    if sym:
        amount, balance, now, level = src.int('env.amount'), src.int('env.balance'), src.int('env.now'), src.int('env.level')
        src.assume((amount >= 0) & (amount <= mbv.MUTEZ_MAX) & (balance >= 0) & (balance <= mbv.MUTEZ_MAX) & (level >= 0))
        sender, source, self_a = (ADDRS[mbv._choose(src, 'env.' + n, 0, len(ADDRS) - 1)] for n in ('sender', 'source', 'self'))
        chain = CHAINS[mbv._choose(src, 'env.chain', 0, 1)]
    else:
        amount, balance, now, level = (int(src.get('env.' + n, 0)) for n in ('amount', 'balance', 'now', 'level'))
        sender, source, self_a = (ADDRS[int(src.get('env.' + n, 0))] for n in ('sender', 'source', 'self'))
        chain = CHAINS[int(src.get('env.chain', 0))]
    ctx = ExecutionContext(amount=amount, balance=balance, now=now, level=level, sender=sender, source=source, address=self_a, chain_id=chain)
    from ref.michelson import Env

    env = Env(amount=amount, balance=balance, now=now, level=level, sender=sender, source=source, self_address=self_a, chain_id=chain,
              hash=lambda fn, data: HashTok(fn, data))
    return ctx, env


def _inputs(P, src, sym):
    types = [mich.T(t) for t in P['types']]
    maxlen, maxcoll = P['maxlen'], P['maxcoll']
    vals = []
    ce = (P.get('opts') or {}).get('concrete_elems')
    if ce is not None:
        # C-level str.join / bytes.join cannot take proxies: element contents are solver-chosen from a small concrete universe
        t = types[0]
        n = mbv._choose(src, 'v0#n', 0, maxcoll) if sym else int(src.get('v0#n', 0))
        idx = [(mbv._choose(src, f'v0[{i}]#pick', 0, len(ce) - 1) if sym else int(src.get(f'v0[{i}]#pick', 0))) for i in range(n)]
        return [t([t.args[0](ce[k]) for k in idx])]
    for i, t in enumerate(types):
        vals.append(mbv.sym_value(src, t, f'v{i}', maxlen, maxcoll) if sym else mbv.conc_value(t, _W(src), f'v{i}'))
    return vals


class _W(dict):
    def __missing__(self, k):
        return b'' if (k.startswith('v') and '#' not in k and '.' not in k and False) else 0


def _run_both(P, src, sym):
    """-> (got, exp): got = ('ok', [values]) | ('fail', msg); exp = ('ok', [RV]) | ('fail',) | ('unsupported', msg)"""
    from ref import michelson as R

    opts = P.get('opts') or {}
    vals = _inputs(P, src, sym)
    if sym:
        from vf import bvx

        bvx.apply_regions(src, {}, P)
    if sym and opts.get('loop'):
        src.assume((vals[0].value <= P['maxloop']))
    if sym and opts.get('loopleft'):
        v = vals[0]
        if v.is_left():
            src.assume(v.items[0].value <= P['maxloop'])
    if sym and opts.get('slice'):
        off, ln, s = vals
        n = len(s.value) if not hasattr(s.value, 'b') else len(s.value.b)
        # the boundary offset = size (with length 0) is not asserted either way (see DESIGN.md); it is covered by `never-fails`
        src.assume(off.value != n)
    ctx, env = _context(src, sym) if opts.get('env') else (None, R.Env(hash=lambda fn, data: HashTok(fn, data)))
    try:
        exp = ('ok', R.run(P['code'], [_rv(v) for v in vals], env))
    except R.Fail:
        exp = ('fail',)
    except R.Unsupported as e:
        exp = ('unsupported', str(e))
    try:
        out = mich.run_instr(mich.I(P['code']), list(vals), ctx)
        got = ('ok', out)
    except mich.Failed as e:
        got = ('fail', str(e)[:120])
    return got, exp


def sym_template(P, ex):
    with mbv.env(), _hash_stubs():
        got, exp = _run_both(P, ex, True)
        if exp[0] == 'unsupported':
            ex.fail_here(f'reference interpreter does not support this template: {exp[1]}')
        if got[0] != exp[0]:
            ex.fail_here(f'interpreter {"fails" if got[0] == "fail" else "succeeds"} where the reference {"fails" if exp[0] == "fail" else "succeeds"}: {got[1] if got[0] == "fail" else ""}')
        if got[0] == 'ok':
            if len(got[1]) != len(exp[1]):
                ex.fail_here(f'stack depth {len(got[1])}, reference {len(exp[1])}')
            for i, (g, e) in enumerate(zip(got[1], exp[1])):
                veq, teq = _deq_rv(g, e)
                if P.get('check') != 'types':
                    ex.check(veq, f'stack slot {i} equals the reference value')
                if P.get('check') != 'values':
                    ex.check(teq, f'stack slot {i} has the type the typing rules assign ({e.ty})')
        ex.check(True)


def conc_template(P, w):
    with _hash_stubs():
        try:
            got, exp = _run_both(P, dict(w), False)
        except Exception as e:  # noqa
            return {'ok': False, 'observed': f'{type(e).__name__}: {e}'}
        if exp[0] == 'unsupported':
            return {'ok': False, 'observed': 'reference unsupported: ' + exp[1]}
        ok = got[0] == exp[0]
        detail = []
        if ok and got[0] == 'ok':
            ok = len(got[1]) == len(exp[1])
            for g, e in zip(got[1], exp[1]):
                veq, teq = _deq_rv(g, e)
                if P.get('check') == 'types':
                    veq = True
                if P.get('check') == 'values':
                    teq = True
                ok = ok and bool(veq) and bool(teq)
                detail.append([repr(g), mich.type_expr(g), repr(e.abs), e.ty])
        return {'ok': bool(ok), 'code': P['code'], 'observed': got[0] if got[0] == 'fail' else detail, 'expected': exp[0]}


# ---- SLICE boundary: never fails -----------------------------------------------------------------------
def sym_slice_total(P, ex):
    with mbv.env():
        vals = _inputs(P, ex, True)
        try:
            out = mich.run_instr(mich.I([P_SLICE]), list(vals))
        except mich.Failed as e:
            ex.fail_here(f'SLICE failed: {e} (it must push an option)')
        ex.check(mich.type_expr(out[0]) == {'prim': 'option', 'args': [{'prim': P['types'][2]}]}, 'SLICE pushes an option')


P_SLICE = {'prim': 'SLICE'}


def conc_slice_total(P, w):
    vals = _inputs(P, dict(w), False)
    try:
        out = mich.run_instr(mich.I([P_SLICE]), list(vals))
    except mich.Failed as e:
        return {'ok': False, 'observed': f'failed: {e}', 'inputs': [repr(v) for v in vals]}
    return {'ok': True, 'observed': repr(out[0])}


# ---- whole contracts through Interpreter.run_code -----------------------------------------------------
def _abs_to_micheline(a):
    from vf import bvx

    tag = a[0]
    if tag in ('int', 'nat', 'mutez', 'timestamp'):
        v = a[1]
        return {'int': bvx.DecStr(v) if isinstance(v, (bvx.IntZ, bvx.SymInt)) else str(v)}
    if tag == 'string':
        return {'string': a[1]}
    if tag == 'bool':
        return {'prim': 'True' if bool(a[1]) else 'False'}
    if tag == 'unit':
        return {'prim': 'Unit'}
    if tag == 'pair':
        return {'prim': 'Pair', 'args': [_abs_to_micheline(a[1]), _abs_to_micheline(a[2])]}
    if tag == 'none':
        return {'prim': 'None'}
    if tag == 'some':
        return {'prim': 'Some', 'args': [_abs_to_micheline(a[1])]}
    if tag in ('left', 'right'):
        return {'prim': tag.capitalize(), 'args': [_abs_to_micheline(a[1])]}
    if tag == 'list':
        return [_abs_to_micheline(x) for x in a[1:]]
    raise NotImplementedError(tag)


def _contract_run(P, src, sym):
    from pytezos.michelson.repl import Interpreter
    from ref import michelson as R

    pty, sty = mich.T(P['param']), mich.T(P['storage'])
    if sym:
        p = mbv.sym_value(src, pty, 'param', 1, P['maxcoll'])
        s = mbv.sym_value(src, sty, 'storage', 1, P['maxcoll'])
    else:
        p, s = mbv.conc_value(pty, _W(src), 'param'), mbv.conc_value(sty, _W(src), 'storage')
    script = [{'prim': 'parameter', 'args': [ty(P['param'])]}, {'prim': 'storage', 'args': [ty(P['storage'])]}, {'prim': 'code', 'args': [P['code']]}]
    pm, sm = _abs_to_micheline(mich.abstract(p)), _abs_to_micheline(mich.abstract(s))
    ops, storage, lazy, stdout, err = Interpreter.run_code(parameter=pm, storage=sm, script=script)
    start = R.RV(('pair', mich.abstract(p), mich.abstract(s)), R.T('pair', mich.type_expr(p), mich.type_expr(s)))
    try:
        res = R.run(P['code'], [start], R.Env())
        exp = ('ok', res[0].abs[2], res[0].ty['args'][1])
    except R.Fail:
        exp = ('fail',)
    got = ('fail', str(err)[:100]) if err is not None else ('ok', storage)
    return got, exp, sty


def sym_contract(P, ex):
    import pytezos.michelson.program as prog
    import pytezos.michelson.repl as repl
    from harness.C05 import deq
    from vf import bvx

    with mbv.env(), bvx.shadowed(prog, repl):
        got, exp, sty = _contract_run(P, ex, True)
        if got[0] != exp[0]:
            ex.fail_here(f'run_code {"fails" if got[0] == "fail" else "succeeds"} where the reference {"fails" if exp[0] == "fail" else "succeeds"}: {got[1] if got[0] == "fail" else ""}')
        if got[0] == 'ok':
            back = sty.from_micheline_value(got[1])
            ex.check(mich.deq(mich.abstract(back), exp[1]), 'resulting storage equals the reference')
            ex.check(mich.type_expr(back) == exp[2], 'resulting storage has the storage type')
        ex.check(True)
    del deq


def conc_contract(P, w):
    try:
        got, exp, sty = _contract_run(P, dict(w), False)
    except Exception as e:  # noqa
        return {'ok': False, 'observed': f'{type(e).__name__}: {e}'}
    ok = got[0] == exp[0]
    if ok and got[0] == 'ok':
        back = sty.from_micheline_value(got[1])
        ok = mich.abstract(back) == exp[1]
    return {'ok': bool(ok), 'observed': repr(got), 'expected': repr(exp[:2])}


def conc_ref_validate(P, w):
    """The reference interpreter against the repository's Octez-derived opcode vectors (those whose instructions it supports)."""
    import glob
    import os

    from pytezos.michelson.parse import michelson_to_micheline
    from ref import michelson as R

    base = '/repo/tests/unit_tests/test_michelson/test_repl/opcodes'
    checked = 0
    bad = []
    vectors = [('add_delta_timestamp.tz', None)]
    del vectors
    import re

    src = open('/repo/tests/unit_tests/test_michelson/test_repl/test_opcodes.py').read()
    for m in re.finditer(r"\('([a-z0-9_]+\.tz)',\s*'((?:[^'\\]|\\.)*)',\s*'((?:[^'\\]|\\.)*)',\s*'((?:[^'\\]|\\.)*)'\)", src):
        fname, storage, param, expected = m.groups()
        path = os.path.join(base, fname)
        if not os.path.exists(path):
            continue
        try:
            script = michelson_to_micheline(open(path).read())
            if any(x in open(path).read() for x in ('BALANCE', 'LEVEL', 'CHAIN_ID', 'NOW', 'AMOUNT', 'SENDER', 'SOURCE', 'SELF', 'VOTING', 'MIN_BLOCK')):
                continue
            pty = next(s['args'][0] for s in script if s['prim'] == 'parameter')
            sty = next(s['args'][0] for s in script if s['prim'] == 'storage')
            code = next(s['args'][0] for s in script if s['prim'] == 'code')
            pT, sT = mich.T(pty), mich.T(sty)
            p = pT.from_micheline_value(michelson_to_micheline(param))
            s = sT.from_micheline_value(michelson_to_micheline(storage))
            e = sT.from_micheline_value(michelson_to_micheline(expected))
            start = R.RV(('pair', mich.abstract(p), mich.abstract(s)), R.T('pair', mich.type_expr(p), mich.type_expr(s)))
            res = R.run(code, [start], R.Env())
            checked += 1
            if res[0].abs[2] != mich.abstract(e):
                bad.append([fname, param, storage, repr(res[0].abs[2]), repr(mich.abstract(e))])
        except Exception:  # noqa: vectors outside the reference's instruction set
            continue
    del glob
    return {'ok': not bad and checked >= 20, 'vectors_checked': checked, 'observed': bad[:3]}


def sym_ref_validate(P, ex):
    r = conc_ref_validate(P, {})
    if not r['ok']:
        ex.fail_here(f'reference interpreter disagrees with the repository vectors: {r}')
    ex.check(True)


def obligations(tier, check='values'):
    q = tier == 'quick'
    t = 120 if q else 900
    maxlen, maxcoll, maxloop = (2, 2, 3) if q else (3, 3, 5)
    obs = [Ob('ref-validate', 'bvx', sym_ref_validate, conc_ref_validate, timeout=300,
              bounds='concrete: reference interpreter vs the Octez-derived (script, storage, parameter, expected) tuples of test_opcodes.py it supports', targets=TARGETS)]
    for entry in TEMPLATES:
        name, types, code = entry[:3]
        opts = entry[3] if len(entry) > 3 else {}
        P_ = {'types': types, 'code': code, 'opts': opts, 'maxlen': maxlen, 'maxcoll': maxcoll, 'maxloop': maxloop, 'check': check}
        obs.append(Ob(f'instr/{name}', 'bvx', sym_template, conc_template, P_, timeout=t,
                      bounds=f'input stack {types} fully symbolic (ints unbounded, strings/bytes <= {maxlen}, lists <= {maxcoll})', targets=TARGETS))
    if check != 'types':
        for ty_ in ('string', 'bytes'):
            obs.append(Ob(f'instr/SLICE {ty_} never fails', 'bvx', sym_slice_total, conc_slice_total,
                          {'types': ['nat', 'nat', ty_], 'maxlen': maxlen, 'maxcoll': 1}, timeout=t,
                          bounds=f'every offset, length and {ty_} of <= {maxlen} symbols', targets=TARGETS))
    for name, p, s, code in CONTRACTS:
        obs.append(Ob(name, 'bvx', sym_contract, conc_contract, {'param': p, 'storage': s, 'code': code, 'maxcoll': maxcoll}, timeout=t,
                      bounds=f'parameter {p}, storage {s}: all values (ints unbounded, lists <= {maxcoll}) through Interpreter.run_code', targets=TARGETS))
    return obs
