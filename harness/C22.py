"""C22 A failing REPL cell leaves the session as if it never ran."""
from harness import mbv, mich
from vf.core import Ob

TARGETS = ['pytezos.michelson.repl.Interpreter.execute', 'pytezos.michelson.types.big_map.BigMapType.__deepcopy__/duplicate',
           'pytezos.context.impl.ExecutionContext (big_map counters, deepcopy)', 'pytezos.michelson.instructions.jupyter.BeginInstruction/CommitInstruction',
           'pytezos.michelson.instructions.struct.EmptyBigMapInstruction/UpdateInstruction', 'pytezos.michelson.stack.MichelsonStack']
STUBS = ['michelson_to_micheline (PLY parser) inside repl.py -> table lookup cell-name -> Micheline (cells are built as Micheline so that their integer leaves can be symbolic); '
         'the parser itself is C18', 'format_stdout -> no-op']
BOUNDS = {'quick': 'a session skeleton of 12 successful cells (declarations, EMPTY_BIG_MAP, UPDATE with symbolic values, DIP-protected stack manipulation, removal, BEGIN, two COMMITs) with '
                   'up to 2 failing cells inserted at solver-chosen positions; a failing cell is a solver-chosen prefix (every instruction position) of one of 7 cell bodies followed by FAILWITH, '
                   'optionally wrapped in DIP',
          'thorough': '2 failing cells with the first at every position of the skeleton'}
OUTSIDE = ['cells outside the alphabet', 'parser failures (text is not modelled)']
ASSUMPTIONS = ['oracle = the same session with the failing cells removed; compared after every successful cell: stack abstraction (incl. big_map ids, local entries, removed keys), '
               'protected-prefix counter, context counters and registries, and the lazy diff / result of every COMMIT']

NAT, INT = {'prim': 'nat'}, {'prim': 'int'}
BM = {'prim': 'big_map', 'args': [NAT, INT]}
OPS = {'prim': 'operation'}


def P(prim, *args):
    e = {'prim': prim}
    if args:
        e['args'] = list(args)
    return e


def cells(val, debug=False):
    """Cell bodies as Micheline; val(name) gives an integer literal (symbolic or concrete)."""
    def lit(name):
        return {'int': val(name)}

    upd = lambda key, name: [P('PUSH', INT, lit(name)), P('SOME'), P('PUSH', NAT, {'int': str(key)}), P('UPDATE')]   # noqa
    rem = lambda key: [P('NONE', INT), P('PUSH', NAT, {'int': str(key)}), P('UPDATE')]   # noqa
    skeleton = ([('debug-on', [P('DEBUG', {'int': '1'})])] if debug else []) + [
        ('decl-parameter', [P('parameter', {'prim': 'unit'})]),
        ('decl-storage', [P('storage', BM)]),
        ('push-or', [P('PUSH', P('or', INT, NAT), P('Left', lit('o')))]),
        ('compare-or-with-a-fresh-equal-value', [P('PUSH', P('or', INT, NAT), P('Left', lit('o'))), P('COMPARE')]),
        ('begin', [P('BEGIN', P('Unit'), [])]),
        ('cdr', [P('CDR')]),
        ('update-1', upd(1, 'a')),
        ('update-2+remove-1', upd(2, 'b') + rem(1)),
        ('push+dip', [P('PUSH', INT, lit('c')), P('DIP', upd(3, 'd')), P('DROP')]),
        ('wrap', [P('NIL', OPS), P('PAIR')]),
        ('commit-1', [P('COMMIT')]),
        ('second-map', [P('EMPTY_BIG_MAP', NAT, INT)] + upd(5, 'e')),
        ('begin-2', [P('DROP'), P('BEGIN', P('Unit'), [])]),
        ('cdr-2', [P('CDR')] + upd(7, 'f') + [P('NIL', OPS), P('PAIR')]),
        ('commit-2', [P('COMMIT')]),
    ]
    bodies = [
        [P('EMPTY_BIG_MAP', NAT, INT)] + upd(9, 'x') + [P('DROP')],
        [P('DUP'), P('DROP')] + upd(4, 'y') + rem(4),
        rem(1) + upd(1, 'z'),
        [P('PUSH', INT, lit('p')), P('PUSH', INT, lit('q')), P('ADD'), P('DROP')],
        [P('EMPTY_BIG_MAP', NAT, INT), P('EMPTY_BIG_MAP', NAT, INT), P('DROP'), P('DROP')],
        [P('DROP_ALL')],
        # registers an on-chain big_map (id 5) in the context, then allocates a fresh one
        [P('BEGIN', P('Unit'), {'int': '5'}), P('CDR'), P('EMPTY_BIG_MAP', NAT, INT), P('DROP'), P('DROP')],
    ]
    return skeleton, bodies


FAIL = [P('PUSH', {'prim': 'string'}, {'string': 'boom'}), P('FAILWITH')]


def failing_cell(bodies, which, k, dip):
    body = bodies[which][:k] + FAIL
    return [P('DIP', body)] if dip else body


def _bm_abs(v):
    from pytezos.michelson import types as t

    if isinstance(v, t.BigMapType):
        return ('big_map', v.ptr, tuple((mich.abstract(k), mich.abstract(x)) for k, x in v.items), tuple(mich.abstract(k) for k in v.removed_keys))
    if isinstance(v, t.PairType):
        return ('pair',) + tuple(_bm_abs(i) for i in v.items)
    if isinstance(v, t.ListType):
        return ('list',) + tuple(_bm_abs(i) for i in v.items)
    return mich.abstract(v)


def _maps_in(v):
    from pytezos.michelson import types as t

    if isinstance(v, t.BigMapType):
        yield v
    elif isinstance(v, (t.PairType, t.ListType)):
        for i in v.items:
            yield from _maps_in(i)


def snapshot(interp):
    c = interp.context
    st = tuple(_bm_abs(x) for x in interp.stack.items)
    ctx = (c.tmp_big_map_index, c.alloc_big_map_index, tuple(sorted(c.big_maps.items())), c.balance_update, c.origination_index,
           repr(c.parameter_expr), repr(c.storage_expr))
    attached = tuple((m.context is c) for x in interp.stack.items for m in _maps_in(x))
    return {'stack': st, 'protected': interp.stack.protected, 'context': ctx, 'big_maps_attached_to_session_context': attached}


def run_session(cell_list):
    """cell_list: [(name, micheline)] -> list of (name, ok, snapshot, commit-observation)"""
    import pytezos.michelson.repl as R
    from pytezos.michelson.instructions.jupyter import CommitInstruction

    table = {}
    saved = R.michelson_to_micheline
    R.michelson_to_micheline = lambda code: table[code]
    try:
        interp = R.Interpreter()
        out = []
        for i, (name, code) in enumerate(cell_list):
            key = f'#{i}'
            table[key] = code
            try:
                res = interp.execute(key)
            except Exception as e:  # noqa: in debug mode (DEBUG 1) a failing cell re-raises instead of returning the error
                from pytezos.michelson.parse import MichelsonParserError
                from pytezos.michelson.micheline import MichelsonRuntimeError

                if not isinstance(e, (MichelsonParserError, MichelsonRuntimeError)):
                    raise
                out.append((name, False, snapshot(interp), None))
                continue
            ok = res.error is None
            commit = None
            if ok and res.instructions is not None:
                for ins in res.instructions.items[0].items if hasattr(res.instructions.items[0], 'items') else []:
                    if isinstance(ins, CommitInstruction):
                        commit = (_lazy(ins.lazy_diff), _bm_abs(ins.result))
            out.append((name, ok, snapshot(interp), commit))
        return out
    finally:
        R.michelson_to_micheline = saved


def _lazy(lazy):
    from harness.C05 import deq

    del deq
    return [(d['kind'], d['id'], d['diff']['action'], [(repr(u['key']), u['key_hash'], ('v', u['value']) if 'value' in u else None) for u in d['diff']['updates']]) for d in lazy]


def _plan(P_, choose, val):
    skeleton, bodies = cells(val, P_.get('debug', False))
    nfail = P_['nfail']
    inserts = []
    for j in range(nfail):
        if j == 0 and 'pos0' in P_:
            pos = P_['pos0']
        else:
            pos = choose(f'pos{j}', inserts[-1][0] if inserts else 0, len(skeleton))
        if nfail > 1:
            # two or more failing cells: three bodies, failure at the start / middle / end of the body, DIP wrapping for the first one only
            which = choose(f'body{j}', 0, 2)
            ks = sorted({0, len(bodies[which]) // 2, len(bodies[which])})
            k = ks[choose(f'k{j}', 0, len(ks) - 1)]
            dip = choose(f'dip{j}', 0, 1) if j == 0 else 0
        else:
            which = choose(f'body{j}', 0, len(bodies) - 1)
            k = choose(f'k{j}', 0, len(bodies[which]))
            dip = choose(f'dip{j}', 0, 1)
        inserts.append((pos, j, failing_cell(bodies, which, k, dip)))
    with_fail = []
    for i, (name, code) in enumerate(skeleton + [('end', [])]):
        for pos, j, fc in sorted(inserts):
            if pos == i:
                with_fail.append((f'FAIL{j}', fc))
        if name != 'end':
            with_fail.append((name, code))
    return skeleton, with_fail


def _compare(P_, choose, val, check, fail):
    skeleton, with_fail = _plan(P_, choose, val)
    a = run_session(with_fail)
    b = run_session(skeleton)
    a_ok = [x for x in a if not x[0].startswith('FAIL')]
    injected = [x for x in a if x[0].startswith('FAIL')]
    for name, ok, _, _ in injected:
        if ok:
            fail(f'injected failing cell {name} did not fail')
    if len(a_ok) != len(b):
        fail('session lengths differ')
    for (na, oka, sa, ca), (nb, okb, sb, cb) in zip(a_ok, b):
        if oka != okb:
            fail(f'cell {na} {"fails" if not oka else "succeeds"} in the session with failing cells but not in the session without them')
        if sa['protected'] != sb['protected']:
            fail(f'after cell {na}: protected-prefix counter {sa["protected"]} vs {sb["protected"]}')
        if sa['context'] != sb['context']:
            fail(f'after cell {na}: context differs {sa["context"]} vs {sb["context"]}')
        check(mich.deq(sa['stack'], sb['stack']), f'after cell {na}: stack equals that of the session without the failing cells')
        if (ca is None) != (cb is None):
            fail(f'COMMIT observation differs at cell {na}')
        if ca is not None:
            from harness.C05 import deq

            check(deq(_listify(ca[0]), _listify(cb[0])), f'COMMIT at cell {na}: lazy diff equals that of the session without the failing cells')
            check(mich.deq(ca[1], cb[1]), f'COMMIT at cell {na}: result equals')


def _listify(x):
    if isinstance(x, tuple):
        return [_listify(i) for i in x]
    if isinstance(x, list):
        return [_listify(i) for i in x]
    return x


def sym_session(P_, ex):
    from vf import bvx

    def choose(name, lo, hi):
        return mbv._choose(ex, name, lo, hi)

    def val(name):
        return bvx.DecStr(ex.int(name))

    import pytezos.michelson.instructions.jupyter as J
    import pytezos.michelson.repl as R

    with mbv.env(), bvx.shadowed(R, J):
        _compare(P_, choose, val, lambda c, label: ex.check(c, label), lambda m: ex.fail_here(m))
        ex.check(True)


def conc_session(P_, w):
    w = dict(w)
    problems = []

    class Stop(Exception):
        pass

    def check(c, label):
        if not c:
            problems.append(label)
            raise Stop()

    def fail(m):
        problems.append(m)
        raise Stop()

    try:
        _compare(P_, lambda n, lo, hi: int(w.get(n, lo)), lambda n: str(int(w.get(n, 0))), check, fail)
    except Stop:
        pass
    except Exception as e:  # noqa
        problems.append(f'{type(e).__name__}: {e}')
    skeleton, with_fail = _plan(P_, lambda n, lo, hi: int(w.get(n, lo)), lambda n: str(int(w.get(n, 0))))
    return {'ok': not problems, 'observed': problems[:3], 'session': [n for n, _ in with_fail],
            'failing_cells': [c for n, c in with_fail if n.startswith('FAIL')]}


def obligations(tier):
    q = tier == 'quick'
    obs = []
    obs.append(Ob('session/failing-cells=1', 'bvx', sym_session, conc_session, {'nfail': 1}, timeout=300 if q else 3000,
                  bounds='1 failing cell: position, body (7), failure point (every instruction position) and DIP wrapping chosen by the solver; all pushed values symbolic',
                  targets=TARGETS))
    obs.append(Ob('session/debug-mode/failing-cells=1', 'bvx', sym_session, conc_session, {'nfail': 1, 'debug': True}, timeout=300 if q else 3000,
                  bounds='the same with DEBUG 1 as the first cell (a failing cell then re-raises out of execute())', targets=TARGETS))
    for nfail in (2,):        # three failing cells did not finish within 40 minutes per obligation: outside the thorough tier too
        for pos0 in (range(0, 16, 2) if q else (range(0, 16) if nfail == 2 else (0, 8))):       # sized by wall time
            obs.append(Ob(f'session/failing-cells={nfail}/first-at={pos0}', 'bvx', sym_session, conc_session, {'nfail': nfail, 'pos0': pos0}, timeout=300 if q else 3000,
                          bounds=f'{nfail} failing cells, the first before skeleton cell {pos0}, the others at solver-chosen later positions; 3 bodies, failure at start/middle/end',
                          targets=TARGETS))
    return obs
