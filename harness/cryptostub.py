"""Ideal-primitive stubs for pytezos.crypto.key (C07, C08, C23: plumbing only).

Every primitive of libsodium / coincurve / fastecdsa / py_ecc / hashlib used by key.py is replaced by
a stand-in that (a) records the exact arguments it was handed and (b) returns fresh symbolic bytes of the
documented length.  Hashes and key derivations are functionally consistent (same argument expression ->
same token).  Verification primitives answer as an ideal scheme: True iff the (key, message, signature)
triple equals one produced by the matching signing stub -- equality is decided by the solver.
What the curve arithmetic computes is outside every claim made with these stubs.
"""
import contextlib

from harness import C10


_TOK = []


def _tok(bvx):
    """Primitive outputs are hashable (sets/dicts of digests compare them with the solver-decided ==)."""
    if not _TOK:
        class Tok(bvx.SymBytes):
            def __hash__(self):
                return 0x70c

            __eq__ = bvx.SymBytes.__eq__
            __ne__ = bvx.SymBytes.__ne__

        _TOK.append(Tok)
    return _TOK[0]


class Crypto:
    def __init__(self, ex):
        from vf import bvx

        self.ex, self.bvx = ex, bvx
        self.calls = []          # (name, args dict, output)
        self.memo = {}
        self.n = 0
        self.signed = []         # (scheme, public key bytes, message given to the primitive, signature bytes)

    # -- helpers --------------------------------------------------------------------------------
    def fresh(self, label, n):
        self.n += 1
        return _tok(self.bvx)(self.ex.bytes(f'{label}#{self.n}', n).items)

    def _key(self, x):
        bvx = self.bvx
        if isinstance(x, (bytes, bytearray)):
            return ('b', bytes(x))
        if isinstance(x, bvx.SymBytes):
            return ('s',) + tuple(i if isinstance(i, int) else str(bvx.bv(i)) for i in x.items)
        if isinstance(x, (bvx.SymInt, bvx.IntZ)):
            return ('i', str(x.e))
        if isinstance(x, (tuple, list)):
            return tuple(self._key(i) for i in x)
        return ('o', repr(x))

    def fn(self, label, n, *args):
        """Functionally consistent uninterpreted function returning n bytes."""
        k = (label, n, self._key(args))
        if k not in self.memo:
            out = self.fresh(label, n)
            out.origin = (label, args)
            # ideal function: equal arguments <=> equal results (functional consistency and collision freedom)
            for (l2, n2, _), o2 in self.memo.items():
                if l2 == label and n2 == n:
                    same = self._args_equal(args, o2.origin[1])
                    self.ex.assume(self.bvx.SymBool(self.bvx._b(out == o2) == self.bvx._b(same)))
            self.memo[k] = out
            self.calls.append((label, args, out))
        return self.memo[k]

    def _args_equal(self, a, b):
        bvx = self.bvx
        if len(a) != len(b):
            return False
        conj = []
        for x, y in zip(a, b):
            if isinstance(x, (bytes, bytearray, bvx.SymBytes)) and isinstance(y, (bytes, bytearray, bvx.SymBytes)):
                if len(x) != len(y):
                    return False
                conj.append((x == y) if isinstance(x, bvx.SymBytes) else (y == x) if isinstance(y, bvx.SymBytes) else bytes(x) == bytes(y))
            else:
                conj.append(x == y)
        return bvx.sym_and(*conj) if conj else True

    def origin_of(self, x):
        """Provenance of a byte string that is (syntactically) the output of a stand-in function."""
        org = getattr(x, 'origin', None)
        if org is not None:
            return org
        k = self._key(x)
        for out in self.memo.values():
            if self._key(out) == k:
                return out.origin
        return None

    def eq(self, a, b):
        """Solver-decided equality of two byte strings (forks)."""
        bvx = self.bvx
        if len(a) != len(b):
            return False
        r = (a == b) if isinstance(a, bvx.SymBytes) else (b == a)
        return bool(r)

    def record(self, name, **kw):
        self.calls.append((name, kw, None))

    def last(self, name):
        for c in reversed(self.calls):
            if c[0] == name:
                return c
        return None

    def count(self, name):
        return sum(1 for c in self.calls if c[0] == name)

    def ideal_verify(self, scheme, pk, msg, sig):
        for s, p, m, g in self.signed:
            if s == scheme and self.eq(p, pk) and self.eq(m, msg) and self.eq(g, sig):
                return True
        return False


def install(ex):
    """-> (Crypto, dict of replacement attributes for pytezos.crypto.key)"""
    from vf import bvx

    c = Crypto(ex)

    class Hash:
        def __init__(self, label, data, n, key=b''):
            self.out = c.fn(label, n, data, key)

        def digest(self):
            return self.out

        def hexdigest(self):
            return bvx.SymHex(self.out)

    def blake2b(data=b'', digest_size=64, key=b''):
        return Hash(f'blake2b-{digest_size * 8}', data, digest_size, key)

    class Sodium:
        @staticmethod
        def crypto_generichash(m, k=b'', outlen=32):
            return c.fn(f'blake2b-{outlen * 8}', outlen, m, k)

        @staticmethod
        def crypto_sign_seed_keypair(seed):
            if len(seed) != 32:
                raise ValueError('invalid seed length')
            pk = c.fn('ed25519.pk_of_seed', 32, seed)
            return pk, seed + pk       # libsodium layout: secret key = seed || public key

        @staticmethod
        def crypto_sign_sk_to_pk(sk):
            if len(sk) != 64:
                raise ValueError('invalid secret key length')
            return sk[32:]

        @staticmethod
        def crypto_sign_sk_to_seed(sk):
            if len(sk) != 64:
                raise ValueError('invalid secret key length')
            return sk[:32]

        @staticmethod
        def crypto_sign_detached(m, sk):
            if len(sk) != 64:
                raise ValueError('invalid secret key length')
            sig = c.fresh('ed25519.signature', 64)
            c.calls.append(('ed25519.sign', {'message': m, 'sk': sk}, sig))
            c.signed.append(('ed', sk[32:], m, sig))
            return sig

        @staticmethod
        def crypto_sign_verify_detached(sig, msg, pk):
            c.calls.append(('ed25519.verify', {'sig': sig, 'message': msg, 'pk': pk}, None))
            if len(sig) != 64 or not c.ideal_verify('ed', pk, msg, sig):
                raise ValueError('ed25519: invalid signature')

        @staticmethod
        def randombytes(n):
            return c.fresh('random', n)

        @staticmethod
        def crypto_secretbox(msg, nonce, k):
            out = c.fn('secretbox', len(msg) + 16, msg, nonce, k)
            c.boxes.append((out, msg, nonce, k))
            return out

        @staticmethod
        def crypto_secretbox_open(c=None, nonce=None, k=None, _C=c):
            for out, msg, n0, k0 in _C.boxes:
                if _C.eq(out, c) and _C.eq(n0, nonce) and _C.eq(k0, k):
                    return msg
            raise ValueError('secretbox: authentication failed')

    c.boxes = []

    class Der:
        def __init__(self, compact):
            self.compact = compact

    class PublicKey:
        def __init__(self, point):
            self.point = point

        def format(self):
            return self.point

        def verify(self, signature, message, hasher=None):
            digest = hasher(message) if hasher else None
            c.calls.append(('secp256k1.verify', {'sig': signature.compact, 'message': message, 'digest': digest, 'pk': self.point}, None))
            return c.ideal_verify('sp', self.point, message, signature.compact) and getattr(digest, 'origin', (None,))[0] == 'blake2b-256'

    class PrivateKey:
        def __init__(self, secret):
            if len(secret) != 32:
                raise ValueError('invalid secret length')
            self.secret = secret
            self.public_key = PublicKey(c.fn('secp256k1.pk', 33, secret))

        def sign(self, message, hasher=None):
            digest = hasher(message) if hasher else None
            sig = c.fresh('secp256k1.signature', 64)
            c.calls.append(('secp256k1.sign', {'message': message, 'digest': digest, 'secret': self.secret}, sig))
            c.signed.append(('sp', self.public_key.point, message, sig))
            return Der(sig)

    class Coincurve:
        pass

    Coincurve.PrivateKey = PrivateKey
    Coincurve.PublicKey = PublicKey

    class Ecdsa:
        @staticmethod
        def der_to_cdata(d):
            return ('cdata', d.compact)

        @staticmethod
        def serialize_compact(cd):
            return cd[1]

        @staticmethod
        def deserialize_compact(b):
            if len(b) != 64:
                raise ValueError('invalid compact signature length')
            return ('cdata', b)

        @staticmethod
        def cdata_to_der(cd):
            return Der(cd[1])

    class P256Point:
        """Affine point: symbolic 256-bit coordinates; `enc` is its SEC1 compressed form (tag 02/03 by the parity of y, then x on 32 bytes)."""

        def __init__(self, enc=None, x=None, y=None):
            if enc is None:
                tag = bvx.SymInt(bvx.bv(2) + (bvx.bv(y) & 1))
                enc = bvx.SymBytes([tag] + list(x.to_bytes(32, 'big').items))
            self.enc = enc
            if x is None:
                x = bvx._Int.from_bytes(enc[1:], 'big')
            self.x = x
            self.y = y

    def _point_of(d):
        raw = c.fn('p256.point', 64, d)
        return P256Point(x=bvx._Int.from_bytes(raw[:32], 'big'), y=bvx._Int.from_bytes(raw[32:], 'big'))

    def b2i(b):
        return bvx._Int.from_bytes(b, 'big')

    class FE:
        class curve:
            P256 = 'P256'

        class keys:
            @staticmethod
            def get_public_key(d, curve=None):
                return _point_of(d)

        class encoding:
            class sec1:
                class SEC1Encoder:
                    @staticmethod
                    def encode_public_key(pk, compressed=True):
                        return pk.enc

                    @staticmethod
                    def decode_public_key(point, curve=None):
                        return P256Point(point)

        class ecdsa:
            @staticmethod
            def sign(msg, d, hashfunc=None, curve=None):
                r, s = ex.bv(f'p256.r#{c.n + 1}'), ex.bv(f'p256.s#{c.n + 1}')
                c.n += 1
                lim = 1 << 256
                ex.assume((r >= 1) & (r < lim) & (s >= 1) & (s < lim))
                c.calls.append(('p256.sign', {'message': msg, 'd': d, 'hashfunc': hashfunc}, (r, s)))
                pk = _point_of(d).enc
                c.signed.append(('p2', pk, msg, (r, s)))
                return r, s

            @staticmethod
            def verify(sig, msg, Q, hashfunc=None, curve=None):
                c.calls.append(('p256.verify', {'sig': sig, 'message': msg, 'pk': Q.enc, 'hashfunc': hashfunc}, None))
                for sch, p, m, (r, s) in [x for x in c.signed if x[0] == 'p2']:
                    if c.eq(p, Q.enc) and c.eq(m, msg) and bool(sig[0] == r) and bool(sig[1] == s):
                        return True
                return False

    class G2:
        @staticmethod
        def SkToPk(sk):
            return c.fn('bls.pk', 48, sk)

        @staticmethod
        def Sign(sk, message):
            sig = c.fresh('bls.signature', 96)
            c.calls.append(('bls.sign', {'message': message, 'sk': sk}, sig))
            c.signed.append(('BL', c.fn('bls.pk', 48, sk), message, sig))
            return sig

        @staticmethod
        def Verify(pk, message, sig):
            c.calls.append(('bls.verify', {'sig': sig, 'message': message, 'pk': pk}, None))
            return len(sig) == 96 and c.ideal_verify('BL', pk, message, sig)

    def i2b(x):
        # fastecdsa.encoding.util.int_to_bytes: minimal-length big-endian rendering
        if isinstance(x, (bvx.SymInt, bvx.IntZ)):
            n = 33
            while n > 0 and bool(x < (1 << (8 * (n - 1)))):
                n -= 1
            return x.to_bytes(n, 'big')
        return int(x).to_bytes((int(x).bit_length() + 7) // 8, 'big')

    class Hashlib:
        @staticmethod
        def pbkdf2_hmac(hash_name, password, salt, iterations, dklen=None):
            return c.fn(f'pbkdf2-{hash_name}-{iterations}', dklen or 64, password, salt)

        @staticmethod
        def sha256(data=b''):
            return Hash('sha256', data, 32)

    repl = {'pysodium': Sodium, 'coincurve': Coincurve, 'ecdsa': Ecdsa, 'fastecdsa': FE, 'G2': G2, 'blake2b': blake2b, 'hashlib': Hashlib,
            'bytes_to_int': b2i, 'int_to_bytes': i2b, 'BLSPubkey': lambda x: x, 'BLSSignature': lambda x: x}
    return c, repl


class EncBoundary(C10.Boundary):
    """Base58 boundary where encoded values can be decoded again (the text is a representative of its kind)."""

    def b58encode_check(self, data):
        t = C10.Boundary.b58encode_check(self, data)
        P, n, payload = self.recorded[-1]
        row = next(r for r in C10._rows() if r[2] == P and r[3] == n)
        self.rep[t.decode()] = (row, payload)
        return t

    def other(self, prefix, payload, n=None, filler=0x12):
        """A second text of the kind `prefix` that decodes to `payload`."""
        import base58

        h, L, P, nn = C10._row(prefix, n)
        text = base58.b58encode_check(P + bytes([filler] * nn)).decode()
        self.rep[text] = ((h, L, P, nn), payload)
        return text


STUBS = ['libsodium / coincurve / fastecdsa / py_ecc / hashlib primitives inside pytezos.crypto.key -> ideal-scheme stand-ins: they record their arguments, return fresh symbolic bytes of the documented '
         'length (P-256: symbolic r, s in [1, 2^256)), hashes and key derivations are functionally consistent, verification answers True iff (key, message, signature) equals a triple produced by '
         'the signing stand-in (decided by the solver)',
         'base58 package boundary (see C10/C09): texts are representatives of their kind, payloads symbolic']


_REINST = {}


def reinstantiated_key_module():
    """key.py re-instantiated from its current source (constant-receiver calls such as ''.join(...) become proxy-aware)."""
    import pytezos.crypto.key as K
    from vf import bvx

    if 'm' not in _REINST:
        _REINST['m'] = bvx.load_module(K.__file__, 'pytezos.crypto.key__vf')
    return _REINST['m']


@contextlib.contextmanager
def env(ex, kinds=(), extra_modules=(), key_module=None):
    """Install the primitive stubs and the base58 boundary; yields (crypto, boundary)."""
    import pytezos.crypto.encoding as E
    import pytezos.crypto.key as K

    if key_module is not None:
        K = key_module
    import pytezos.michelson.forge as F
    from harness import mbv
    from vf import bvx

    c, repl = install(ex)
    b = EncBoundary(ex, list(kinds))
    repl = {n: v for n, v in repl.items() if hasattr(K, n)}
    saved = {n: getattr(K, n) for n in repl}
    saved_b = (E.base58, F.base58)
    # module-level mutable state of key.py (caches, registries) must not leak from one explored path into the next
    state = {n: (v, v.copy()) for n, v in vars(K).items() if isinstance(v, (set, dict, list)) and not n.startswith('__')}
    for n, v in repl.items():
        setattr(K, n, v)
    E.base58 = b
    F.base58 = b
    saved_x = [(m, m.base58) for m in extra_modules if 'base58' in m.__dict__]
    for m, _ in saved_x:
        m.base58 = b
    try:
        with mbv.env(), bvx.shadowed(E, F, K, *extra_modules):
            yield c, b
    finally:
        for n, v in saved.items():
            setattr(K, n, v)
        for n, (obj, snap) in state.items():
            obj.clear()
            (obj.update if isinstance(obj, (set, dict)) else obj.extend)(snap)
        E.base58, F.base58 = saved_b
        for m, old in saved_x:
            m.base58 = old
