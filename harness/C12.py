"""C12 Python-object conversion of contract data round-trips."""
from harness import mbv, mich
from vf.core import Ob

TARGETS = ['pytezos.michelson.types.adt.get_type_layout', 'pytezos.michelson.types.adt.wrap_pair', 'pytezos.michelson.types.adt.wrap_or',
           'pytezos.michelson.types.pair.PairType.from_python_object/to_python_object', 'pytezos.michelson.types.sum.OrType.from_python_object/to_python_object',
           'pytezos.michelson.types.*.from_python_object/to_python_object', 'pytezos.contract.data.ContractData.encode/decode',
           'pytezos.contract.entrypoint.ContractEntrypoint.encode/decode']
STUBS = ['str(int)/int(str) -> opaque decimal token', 'map/set keys are solver-chosen from small concrete universes (Python dict keys must be hashable); all other leaves symbolic']
BOUNDS = {'quick': 'storage/parameter type shapes of depth <= 3 with named/unnamed/partly named pairs, right combs and nested pairs, duplicate names, unions (incl. enums, unnamed branches), '
                   'options, list/set/map with int and pair keys, type-annotated (:name) nested pairs, big_maps given by id and by literal at contract level; leaf ints unbounded, strings/bytes <= 1, collections <= 2',
          'thorough': 'collections <= 3, strings <= 2, additional shapes'}
OUTSIDE = ['option (option _) (None is ambiguous by documentation; reported separately as `documented-ambiguity`)', 'lambdas, tickets']
ASSUMPTIONS = ['round trip is judged on Michelson value equality (abstraction of from_python_object(to_python_object(v)) equals abstraction of v)']

SHAPES_Q = [
    'pair (int %a) (nat %b)', 'pair int nat', 'pair (int %a) nat', 'pair (int %a) (nat %b) (string %c)', 'pair (int %a) (pair (nat %b) (string %c))',
    'pair (pair (int %a) (nat %b)) (string %c)', 'pair (pair %inner (int %a) (nat %b)) (string %c)', 'pair (int %a) (nat %a)', 'pair (int %x) (pair (nat %x) (string %y))',
    'pair (int :t) (nat :u)', 'pair (nat %a) (pair :point (nat %x) (nat %y))', 'pair (pair :p int nat) (string %c)', 'pair (pair :p (int %a) (nat %b)) (pair :q (string %c) (bytes %d))',
    'or (pair :l (int %a) (nat %b)) (nat %r)', 'pair (mutez :tez) (mutez :tez) (string %memo)', 'or (nat :id) (or (nat :id) (string %name))', 'pair (int :a) (nat %a)',
    'pair (int :x) (pair (nat :x) (string :y))', 'pair :storage (int %a) (pair :inner nat string)', 'pair int nat string bytes', 'pair (pair int nat) (pair string bytes)',
    'or (int %a) (nat %b)', 'or (unit %on) (unit %off)', 'or (or (unit %a) (unit %b)) (unit %c)', 'or (or (int %a) (nat %b)) (string %c)',
    'or (or (nat %deposit) (nat %withdraw)) (or (unit %pause) (unit %resume))', 'or int nat', 'or (int %a) nat',
    'option int', 'option (pair (int %a) (nat %b))', 'pair (option %o int) (or %u (int %l) (string %r))',
    'list int', 'list (pair (int %a) (nat %b))', 'set int', 'set (pair int nat)', 'map int string', 'map (pair int nat) (pair (int %a) (string %b))',
    'map string (or (int %l) (nat %r))', 'pair (map %m int (list nat)) (set %s string) (option %o (or (unit %x) (unit %y)))',
    'map (pair (pair %k (int %a) (nat %b)) string) int', 'map (pair int (or (int %l) (string %r))) nat', 'set (or (int %l) (string %r))',
    'bool', 'unit', 'mutez', 'bytes', 'pair (bool %flag) (bytes %data) (mutez %amount) (nat %count)',
]
SHAPES_T = ['pair (pair (pair (int %a) (nat %b)) (string %c)) (pair (bytes %d) (pair (bool %e) (unit %f)))',
            'or (or (or (int %a) (nat %b)) (string %c)) (or (bytes %d) (pair %e (int %x) (nat %y)))',
            'map (pair int (pair nat string)) (map string (option int))', 'list (or (pair %p (int %a) (list %l nat)) (set %s int))']


def pyeq(a, b):
    """Deep equality of Python objects that may hold proxies."""
    from pytezos.michelson.types.core import unit

    if isinstance(a, dict) and isinstance(b, dict):
        if len(a) != len(b):
            return False
        r = True
        for (ka, va), (kb, vb) in zip(a.items(), b.items()):
            r = mich._and(r, mich._and(pyeq(ka, kb), pyeq(va, vb)))
        return r
    if isinstance(a, (list, tuple)) and isinstance(b, (list, tuple)):
        if len(a) != len(b):
            return False
        r = True
        for x, y in zip(a, b):
            r = mich._and(r, pyeq(x, y))
        return r
    if isinstance(a, unit) and isinstance(b, unit):
        return True
    if isinstance(a, (dict, list, tuple)) or isinstance(b, (dict, list, tuple)):
        return False
    return a == b


def _conc_keys(ex, ty, name, n, maxlen):
    """n distinct, sorted, solver-chosen concrete keys of a comparable type."""
    import functools
    import itertools

    universe = list(_universe(ty))
    universe.sort(key=functools.cmp_to_key(mbv.conc_cmp))
    combos = list(itertools.combinations(range(len(universe)), n))
    k = mbv._choose(ex, name + '#keys', 0, len(combos) - 1)
    return [universe[i] for i in combos[k]]


def _universe(ty):
    from pytezos.michelson.types.base import Undefined

    p = ty.prim
    if p in ('int',):
        return [ty(v) for v in (-1, 0, 2)]
    if p in ('nat', 'mutez', 'timestamp'):
        return [ty(v) for v in (0, 1, 5)]
    if p == 'string':
        return [ty(v) for v in ('', 'a', 'b')]
    if p == 'bytes':
        return [ty(v) for v in (b'', b'\x00', b'\xff')]
    if p == 'bool':
        return [ty(False), ty(True)]
    if p == 'unit':
        return [ty()]
    if p == 'pair':
        import itertools

        subs = [_universe(a)[:2] for a in ty.args]
        return [ty(tuple(c)) for c in itertools.product(*subs)]
    if p == 'or':
        return [ty((x, Undefined)) for x in _universe(ty.args[0])[:2]] + [ty((Undefined, x)) for x in _universe(ty.args[1])[:2]]
    if p == 'option':
        return [ty(None)] + [ty(x) for x in _universe(ty.args[0])[:2]]
    raise NotImplementedError(p)


def sym_value(ex, ty, name, maxlen, maxcoll):
    """Like mbv.sym_value but with concrete (solver-chosen) keys for sets and maps."""
    p = ty.prim
    if p == 'set':
        n = mbv._choose(ex, name + '#n', 0, maxcoll)
        return ty(_conc_keys(ex, ty.args[0], name, n, maxlen))
    if p == 'map':
        n = mbv._choose(ex, name + '#n', 0, maxcoll)
        keys = _conc_keys(ex, ty.args[0], name, n, maxlen)
        return ty([(k, sym_value(ex, ty.args[1], f'{name}[{i}].v', maxlen, maxcoll)) for i, k in enumerate(keys)])
    if p == 'pair':
        return ty(tuple(sym_value(ex, a, f'{name}.{i}', maxlen, maxcoll) for i, a in enumerate(ty.args)))
    if p == 'option':
        if mbv._choose(ex, name + '#some', 0, 1):
            return ty(sym_value(ex, ty.args[0], name + '.some', maxlen, maxcoll))
        return ty(None)
    if p == 'or':
        from pytezos.michelson.types.base import Undefined

        if mbv._choose(ex, name + '#right', 0, 1):
            return ty((Undefined, sym_value(ex, ty.args[1], name + '.R', maxlen, maxcoll)))
        return ty((sym_value(ex, ty.args[0], name + '.L', maxlen, maxcoll), Undefined))
    if p == 'list':
        n = mbv._choose(ex, name + '#n', 0, maxcoll)
        return ty([sym_value(ex, ty.args[0], f'{name}[{i}]', maxlen, maxcoll) for i in range(n)])
    return mbv.sym_value(ex, ty, name, maxlen, maxcoll)


def conc_value(ty, w, name, maxlen=1):
    import functools
    import itertools

    from pytezos.michelson.types.base import Undefined

    p = ty.prim
    if p in ('set', 'map'):
        n = int(w.get(name + '#n', 0))
        universe = list(_universe(ty.args[0]))
        universe.sort(key=functools.cmp_to_key(mbv.conc_cmp))
        combos = list(itertools.combinations(range(len(universe)), n))
        keys = [universe[i] for i in combos[int(w.get(name + '#keys', 0))]]
        if p == 'set':
            return ty(keys)
        return ty([(k, conc_value(ty.args[1], w, f'{name}[{i}].v')) for i, k in enumerate(keys)])
    if p == 'pair':
        return ty(tuple(conc_value(a, w, f'{name}.{i}') for i, a in enumerate(ty.args)))
    if p == 'option':
        return ty(conc_value(ty.args[0], w, name + '.some') if int(w.get(name + '#some', 0)) else None)
    if p == 'or':
        if int(w.get(name + '#right', 0)):
            return ty((Undefined, conc_value(ty.args[1], w, name + '.R')))
        return ty((conc_value(ty.args[0], w, name + '.L'), Undefined))
    if p == 'list':
        return ty([conc_value(ty.args[0], w, f'{name}[{i}]') for i in range(int(w.get(name + '#n', 0)))])
    return mbv.conc_value(ty, w, name)


def _layout_checks(ty):
    """Field names used in Python objects are unique and stable for a type."""
    from pytezos.michelson import types as t

    for node in _type_nodes(ty):
        if issubclass(node, (t.PairType, t.OrType)):
            l1 = node.get_type_layout(infer_names=issubclass(node, t.OrType))
            l2 = node.get_type_layout(infer_names=issubclass(node, t.OrType))
            if l1 != l2:
                return f'layout of {node.prim} differs between two calls'
            path_to_key = l1[0]
            if path_to_key is not None and len(set(path_to_key.values())) != len(path_to_key):
                return f'duplicate field names in layout of {node.prim}: {path_to_key}'
    return None


def _type_nodes(ty):
    yield ty
    for a in getattr(ty, 'args', []):
        if isinstance(a, type):
            yield from _type_nodes(a)


def sym_shape(P, ex):
    ty = mich.T(P['type'])
    with mbv.env():
        err = _layout_checks(ty)
        if err:
            ex.fail_here(err)
        v = sym_value(ex, ty, 'v', P['maxlen'], P['maxcoll'])
        try:
            o = v.to_python_object()
        except Exception as e:  # noqa
            ex.fail_here(f'to_python_object failed: {type(e).__name__}: {e}')
        try:
            back = ty.from_python_object(o)
        except Exception as e:  # noqa
            ex.fail_here(f'from_python_object(to_python_object(v)) failed: {type(e).__name__}: {e}')
        ex.check(mich.deq(mich.abstract(back), mich.abstract(v)), 'from_python_object(to_python_object(v)) == v')
        # contract-level helpers: decode(encode(o)) == o, for both renderings
        from pytezos.context.impl import ExecutionContext
        from pytezos.contract.data import ContractData

        for mode in ('readable', 'optimized'):
            cd = ContractData(ExecutionContext(mode=mode), v)
            try:
                enc = cd.encode(o)
                o2 = cd.decode(enc)
            except Exception as e:  # noqa
                ex.fail_here(f'ContractData.decode(encode(obj)) failed in {mode} mode: {type(e).__name__}: {e}')
            ex.check(pyeq(o2, o), f'ContractData.decode(encode(obj)) == obj ({mode})')


def conc_shape(P, w):
    ty = mich.T(P['type'])
    err = _layout_checks(ty)
    if err:
        return {'ok': False, 'observed': err}
    v = conc_value(ty, w, 'v')
    try:
        o = v.to_python_object()
        back = ty.from_python_object(o)
    except Exception as e:  # noqa
        return {'ok': False, 'value': repr(v), 'observed': f'{type(e).__name__}: {e}'}
    ok = mich.abstract(back) == mich.abstract(v)
    res = {'ok': ok, 'value': repr(v), 'python_object': repr(o), 'observed': repr(back)}
    if ok:
        from pytezos.context.impl import ExecutionContext
        from pytezos.contract.data import ContractData

        for mode in ('readable', 'optimized'):
            cd = ContractData(ExecutionContext(mode=mode), v)
            try:
                o2 = cd.decode(cd.encode(o))
            except Exception as e:  # noqa
                return {'ok': False, 'value': repr(v), 'observed': f'ContractData {mode}: {type(e).__name__}: {e}'}
            if not pyeq(o2, o):
                return {'ok': False, 'value': repr(v), 'observed': f'ContractData {mode}: {o2!r} != {o!r}'}
    return res


def sym_entrypoint(P, ex):
    """ContractEntrypoint.encode / decode are mutual inverses on the parameter type."""
    from pytezos.context.impl import ExecutionContext
    from pytezos.contract.entrypoint import ContractEntrypoint

    texpr = mich.texpr(P['type'])
    with mbv.env():
        ctx = ExecutionContext(script={'code': [{'prim': 'parameter', 'args': [texpr]}, {'prim': 'storage', 'args': [{'prim': 'unit'}]}, {'prim': 'code', 'args': [[]]}], 'storage': {'prim': 'Unit'}})
        from pytezos.michelson.sections.parameter import ParameterSection

        pty = ParameterSection.match(ctx.parameter_expr)
        eps = sorted(pty.list_entrypoints().items())
        name, ety = eps[mbv._choose(ex, 'entrypoint', 0, len(eps) - 1)]
        a = sym_value(ex, ety, 'arg', 1, 1)
        ep = ContractEntrypoint(ctx, name)
        try:
            o = a.to_python_object()
            params = ep.encode(o)
            back = ep.decode(params['value'], entrypoint=params['entrypoint'])
        except Exception as e:  # noqa
            ex.fail_here(f'ContractEntrypoint({name}).decode(encode(obj)) failed: {type(e).__name__}: {e}')
        full = pty.from_parameters(params)
        exp = full.to_python_object()
        ex.check(pyeq(back, exp), 'decode(encode(obj)) is the Python object of the full parameter value')
        built = pty.from_parameters({'entrypoint': name, 'value': a.to_micheline_value()})
        ex.check(mich.deq(mich.abstract(full.item), mich.abstract(built.item)), 'encode builds the same parameter value as a direct call of the entrypoint')


def conc_entrypoint(P, w):
    from pytezos.context.impl import ExecutionContext
    from pytezos.contract.entrypoint import ContractEntrypoint
    from pytezos.michelson.sections.parameter import ParameterSection

    texpr = mich.texpr(P['type'])
    ctx = ExecutionContext(script={'code': [{'prim': 'parameter', 'args': [texpr]}, {'prim': 'storage', 'args': [{'prim': 'unit'}]}, {'prim': 'code', 'args': [[]]}], 'storage': {'prim': 'Unit'}})
    pty = ParameterSection.match(ctx.parameter_expr)
    eps = sorted(pty.list_entrypoints().items())
    name, ety = eps[int(w.get('entrypoint', 0))]
    a = conc_value(ety, w, 'arg')
    ep = ContractEntrypoint(ctx, name)
    try:
        o = a.to_python_object()
        params = ep.encode(o)
        back = ep.decode(params['value'], entrypoint=params['entrypoint'])
        full = pty.from_parameters(params)
        built = pty.from_parameters({'entrypoint': name, 'value': a.to_micheline_value()})
    except Exception as e:  # noqa
        return {'ok': False, 'entrypoint': name, 'argument': repr(a), 'observed': f'{type(e).__name__}: {e}'}
    ok = pyeq(back, full.to_python_object()) and mich.abstract(full.item) == mich.abstract(built.item)
    return {'ok': ok, 'entrypoint': name, 'argument': repr(a), 'observed': repr(back), 'params': params}


PARAM_TYPES = ['or (int %a) (nat %b)', 'or (or (int %a) (pair %b (nat %x) (string %y))) (unit %c)', 'or (unit %on) (unit %off)',
               'pair %main (int %a) (nat %b)', 'or (or %inner (int %a) (nat %b)) (string %c)', 'nat']


BIGMAP_TYPES = ['big_map nat string', 'pair (big_map %ledger nat string) (nat %total)', 'pair (nat %a) (pair (big_map %m string int) (big_map %n int bytes))',
                'or (big_map %l nat nat) (nat %r)', 'option (big_map nat nat)']


def _bigmap_obj(ty_text, ident, lit, n):
    """Python object of the storage type with big_maps given by id (`ident`) or by a literal dict (`lit`)."""
    bm = ident if lit is None else lit
    return {'big_map nat string': bm,
            'pair (big_map %ledger nat string) (nat %total)': {'ledger': bm, 'total': n},
            'pair (nat %a) (pair (big_map %m string int) (big_map %n int bytes))': {'a': n, 'm': bm if lit is None else {}, 'n': (ident + 1 if lit is None else {})},
            'or (big_map %l nat nat) (nat %r)': {'l': bm if lit is None else {}},
            'option (big_map nat nat)': bm if lit is None else {}}[ty_text]


def _bigmap_roundtrip(P, ident, n, check, fail):
    from pytezos.context.impl import ExecutionContext
    from pytezos.contract.data import ContractData

    ty = mich.T(P['type'])
    lit = None
    if P['form'] == 'literal':
        lit = {1: 'a', 5: ''} if P['type'].startswith('big_map') or 'ledger' in P['type'] else {}
    o = _bigmap_obj(P['type'], ident, lit, n)
    for mode in ('readable', 'optimized'):
        cd = ContractData(ExecutionContext(mode=mode), ty.from_python_object(o))
        try:
            enc = cd.encode(o)
            o2 = cd.decode(enc)
        except Exception as e:  # noqa
            fail(f'ContractData.decode(encode(obj)) failed in {mode} mode: {type(e).__name__}: {e}')
            return
        check(pyeq(o2, o), f'ContractData.decode(encode(obj)) == obj for a big_map given by {P["form"]} ({mode})')


def sym_bigmap(P, ex):
    ident, n = ex.int('big_map_id'), ex.int('n')
    ex.assume((ident >= 0) & (n >= 0))
    import pytezos.michelson.types.big_map as t_bm
    from vf import bvx

    with mbv.env(), bvx.shadowed(t_bm):
        _bigmap_roundtrip(P, ident, n, lambda c, label: ex.check(c, label), lambda m: ex.fail_here(m))
        ex.check(True)


def conc_bigmap(P, w):
    problems = []
    _bigmap_roundtrip(P, int(w.get('big_map_id', 0)), int(w.get('n', 0)), lambda c, label: (None if c else problems.append(label)), problems.append)
    return {'ok': not problems, 'observed': problems[:3]}


def obligations(tier):
    q = tier == 'quick'
    t = 120 if q else 900
    maxlen, maxcoll = (1, 2) if q else (2, 3)
    obs = []
    for s in SHAPES_Q + ([] if q else SHAPES_T):
        obs.append(Ob(f'type/{s}', 'bvx', sym_shape, conc_shape, {'type': s, 'maxlen': maxlen, 'maxcoll': maxcoll}, timeout=t,
                      bounds=f'all values: ints unbounded, strings/bytes <= {maxlen}, collections <= {maxcoll} (keys from small concrete universes)', targets=TARGETS))
    for s in BIGMAP_TYPES:
        for form in ('id', 'literal'):
            obs.append(Ob(f'big_map-by-{form}/{s}', 'bvx', sym_bigmap, conc_bigmap, {'type': s, 'form': form}, timeout=t,
                          bounds='big_map given by a symbolic non-negative id / by a literal dict; other leaves symbolic', targets=TARGETS))
    for s in PARAM_TYPES:
        obs.append(Ob(f'entrypoint/{s}', 'bvx', sym_entrypoint, conc_entrypoint, {'type': s}, timeout=t,
                      bounds='every listed entrypoint (solver-chosen), symbolic argument', targets=TARGETS))
    return obs
