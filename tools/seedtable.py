#!/usr/bin/env python3
"""Prints the seeded-change table of DESIGN.md section 10.5 from /verif/seeded/*/meta.json."""
import glob
import json
import os
import re

ROOT = os.path.dirname(os.path.dirname(os.path.abspath(__file__)))


def short(s, n):
    s = re.sub(r'\s+', ' ', s or '').replace('|', '/')
    return s if len(s) <= n else s[:n - 1].rsplit(' ', 1)[0] + ' …'


def main():
    print('| seed | change | result |')
    print('|---|---|---|')
    for d in sorted(glob.glob(os.path.join(ROOT, 'seeded', '*'))):
        m = json.load(open(os.path.join(d, 'meta.json')))
        name = os.path.basename(d)
        res = m.get('check_result') or m.get('status') or ''
        low = res.lower()
        if 'not caught' in low:
            tag = '**not caught**'
        elif 'dropped' in low:
            tag = 'dropped'
        elif 'after' in low and ('initially' in low or 'first version' in low or 'first run' in low or 'only after' in low or 'added' in low or 'narrowed' in low):
            tag = 'caught after strengthening'
        else:
            tag = 'caught'
        print(f"| {name} | {short(m.get('summary', ''), 150)} | {tag}: {short(res, 230)} |")


if __name__ == '__main__':
    main()
