"""C02 Values produced by execution always have the statically expected type.

Same runs as C01 (harness/C01.py) with the assertion on the runtime type of every result stack slot and of the resulting storage:
type(v).as_micheline_expr() without annotations must equal the type the reference typing rules assign."""
from harness import C01
from harness.C14 import conc_map, sym_map_read
from vf.core import Ob

TARGETS = C01.TARGETS + ['pytezos.michelson.types.base.MichelsonType.create_type', 'pytezos.michelson.micheline.Micheline.assert_type_equal',
                         'pytezos.michelson.types.adt.ADTMixin.get_value']
STUBS = C01.STUBS
BOUNDS = C01.BOUNDS
OUTSIDE = C01.OUTSIDE
ASSUMPTIONS = ['reference typing: ref/michelson.py computes the type of every value it produces (annotation-free Micheline type expressions)']


def obligations(tier):
    obs = [o for o in C01.obligations(tier, check='types') if not o.name.startswith('ref-validate')]
    # collections with composite keys keep their key/element types under MAP (see also C14)
    for key in ('pair int int', 'pair int (pair nat int)', 'or int string', 'option int'):
        obs.append(Ob(f'map/MAP keeps the key type/{key}', 'bvx', sym_map_read, conc_map, {'key': key, 'n': 2}, timeout=120 if tier == 'quick' else 900,
                      bounds=f'any valid map of <= 2 bindings {key} -> int', targets=TARGETS))
    return obs
