"""Engine A: CrossHair on the real pytezos objects.

run(ob, excluded) symbolically executes ob.sym(P, <symbolic args>) with crosshair-tool's
analyze_function / run_checkables.  The property is the boolean the harness returns; the
verdict is `proved` only when CrossHair exhausted the path tree (CONFIRMED).
"""
from __future__ import annotations

import collections
import inspect
import linecache
import time
import traceback
from typing import Any, Dict, List

from vf.core import Ob, Skip

_STATE: Dict[str, Any] = {}


def assume(cond) -> None:
    """Precondition inside a harness: abandon the path when cond is false."""
    if not cond:
        from crosshair.util import IgnoreAttempt

        raise IgnoreAttempt('assume')


def tracing() -> bool:
    try:
        from crosshair.tracers import is_tracing

        return is_tracing()
    except Exception:
        return False


def _install_solver_clock():
    import z3

    if getattr(z3.Solver, '_vf_clock', False):
        return
    orig = z3.Solver.check

    def check(self, *a, **kw):
        t0 = time.perf_counter()
        try:
            return orig(self, *a, **kw)
        finally:
            _STATE['solver_s'] = _STATE.get('solver_s', 0.0) + time.perf_counter() - t0
            _STATE['queries'] = _STATE.get('queries', 0) + 1

    z3.Solver.check = check
    z3.Solver._vf_clock = True


def _make_wrapper(ob: Ob, regions: List[str]):
    sig = inspect.signature(ob.sym)
    params = list(sig.parameters.values())[1:]  # drop P
    ns: Dict[str, Any] = {}
    decl = []
    names = []
    for i, p in enumerate(params):
        ns[f'__t{i}__'] = p.annotation
        decl.append(f'{p.name}: __t{i}__')
        names.append(p.name)
    region_fns = []
    for r in regions:
        region_fns.append(eval('lambda P, ' + ', '.join(names) + ': (' + r + ')', {'__builtins__': __builtins__}))

    from crosshair.core import deep_realize
    from crosshair.tracers import NoTracing
    from crosshair.util import IgnoreAttempt

    P = ob.P

    def drive(*args):
        for rf in region_fns:
            try:
                inside = rf(P, *args)
            except Exception:
                inside = False
            if inside:
                raise IgnoreAttempt('known region')
        try:
            ok = ob.sym(P, *args)
        except Skip:
            raise IgnoreAttempt('skip')
        except Exception as e:
            vals = deep_realize(args)
            with NoTracing():
                _STATE['witness'] = dict(zip(names, vals))
                _STATE['message'] = 'exception ' + type(e).__name__ + ': ' + str(e)[:300]
                _STATE['tb'] = traceback.format_exc()[-1500:]
                _STATE['reached'] = _STATE.get('reached', 0) + 1
            raise
        if ok:
            with NoTracing():
                _STATE['reached'] = _STATE.get('reached', 0) + 1
            return True
        vals = deep_realize(args)
        with NoTracing():
            _STATE['reached'] = _STATE.get('reached', 0) + 1
            _STATE['witness'] = dict(zip(names, vals))
            _STATE['message'] = 'property false'
        return False

    ns['__drive__'] = drive
    src = (
        'def __ob__(' + ', '.join(decl) + ') -> bool:\n'
        '    """\n'
        '    post: _\n'
        '    """\n'
        '    return __drive__(' + ', '.join(names) + ')\n'
    )
    fname = f'<vf-ob-{ob.name}>'
    linecache.cache[fname] = (len(src), None, src.splitlines(True), fname)
    exec(compile(src, fname, 'exec'), ns)
    fn = ns['__ob__']
    import sys
    import types

    mod = types.ModuleType('__vf_ob__')
    mod.__file__ = fname
    mod.__dict__.update(ns)
    sys.modules['__vf_ob__'] = mod
    fn.__module__ = '__vf_ob__'
    return fn, names


def run(ob: Ob, excluded: List[str], timeout: float) -> Dict[str, Any]:
    import crosshair.core_and_libs  # noqa: registers the library models and opcode patches
    from vf import xh_shim

    xh_shim.install()
    _install_solver_clock()
    from crosshair.core import analyze_function, run_checkables
    from crosshair.options import AnalysisOptionSet, DEFAULT_OPTIONS
    from crosshair.statespace import MessageType

    _STATE.clear()
    fn, names = _make_wrapper(ob, excluded)
    stats: collections.Counter = collections.Counter()
    options = AnalysisOptionSet(
        per_condition_timeout=timeout,
        per_path_timeout=1e30,  # no z3 wall-clock timer (its timer thread spin-yields under load); the runner enforces the budget
        report_all=True,
        max_uninteresting_iterations=10**9,
        max_iterations=10**9,
        stats=stats,
    )
    t0 = time.time()
    checkables = analyze_function(fn, DEFAULT_OPTIONS.overlay(options))
    messages = run_checkables(checkables)
    wall = time.time() - t0
    res: Dict[str, Any] = {
        'paths': int(stats.get('num_paths', 0)),
        'reached': int(_STATE.get('reached', 0)),
        'queries': int(_STATE.get('queries', 0)),
        'solver_s': round(_STATE.get('solver_s', 0.0), 3),
        'wall_s': round(wall, 3),
    }
    states = [m.state for m in messages]
    res['xh_states'] = [s.name for s in states]
    if any(s in (MessageType.POST_FAIL, MessageType.EXEC_ERR, MessageType.POST_ERR) for s in states):
        res['verdict'] = 'refuted'
        res['witness'] = _STATE.get('witness')
        res['message'] = _STATE.get('message', '') or '; '.join(m.message for m in messages)[:500]
        if 'tb' in _STATE:
            res['tb'] = _STATE['tb']
        if res['witness'] is None:
            res['verdict'] = 'error'
            res['message'] = 'counterexample without captured witness: ' + '; '.join(m.message for m in messages)[:800]
    elif states and all(s == MessageType.CONFIRMED for s in states):
        if res['reached'] > 0:
            res['verdict'] = 'proved'
        else:
            res['verdict'] = 'error'
            res['message'] = 'vacuous: no path reached the assertion'
    elif any(s == MessageType.PRE_UNSAT for s in states):
        res['verdict'] = 'error' if res['reached'] == 0 else 'inconclusive'
        res['message'] = 'unable to meet precondition / all paths aborted'
    elif any(s in (MessageType.SYNTAX_ERR, MessageType.IMPORT_ERR) for s in states):
        res['verdict'] = 'error'
        res['message'] = '; '.join(m.message for m in messages)[:800]
    else:
        res['verdict'] = 'inconclusive'
        res['message'] = '; '.join(f'{m.state.name}: {m.message}' for m in messages)[:500] or 'no verdict'
    return res
