"""CrossHair shim for pytezos (engine-level, no change to pytezos).

* int()/bool()/bytes() on a pytezos object whose dunder returns a symbolic value must pass the
  symbolic value through (CPython's builtins would raise TypeError on the proxy).
* Output formatting (format_stdout, repr of Michelson values) is not the subject of any property
  and realises every symbolic integer it prints: replaced by constant stubs *under tracing only*.
* str(symbolic int) -> DecStr token, int(DecStr) -> the same symbolic int ("decimal rendering is a
  bijection": trusted contract of the builtins).
"""
from __future__ import annotations

import sys

_INSTALLED = False


class DecStr(str):
    """Opaque decimal rendering of a (symbolic) integer."""

    __slots__ = ('v',)

    def __new__(cls, v):
        obj = str.__new__(cls, '<dec>')
        obj.v = v
        return obj

    def __eq__(self, other):
        if isinstance(other, DecStr):
            return self.v == other.v
        return NotImplemented

    def __ne__(self, other):
        r = self.__eq__(other)
        return r if r is NotImplemented else not r

    __hash__ = None  # type: ignore


def install():
    global _INSTALLED
    if _INSTALLED:
        return
    _INSTALLED = True
    import crosshair.core_and_libs  # noqa
    import crosshair.core as xcore
    from crosshair.core import CrossHairValue, NoTracing
    from crosshair.libimpl.builtinslib import SymbolicInt
    from crosshair.tracers import COMPOSITE_TRACER, is_tracing

    _PRIMS = (int, float, str, bytes, bytearray, memoryview, type(None))

    def _user_obj(val, dunder):
        return (
            (not isinstance(val, CrossHairValue))
            and (not isinstance(val, _PRIMS))
            and type(val).__module__.startswith(('pytezos', 'vf', 'harness', 'ref'))
            and hasattr(type(val), dunder)
        )

    # NOTE: inside an override, calling the builtin by name dispatches to the next lower layer
    # (CrossHair's own model), see crosshair.tracers.PatchingModule.nextfn.
    def patched_int(*a, **kw):
        with NoTracing():
            user = len(a) == 1 and not kw and _user_obj(a[0], '__int__')
            dec = len(a) == 1 and type(a[0]) is DecStr
        if dec:
            return a[0].v
        if user:
            return type(a[0]).__int__(a[0])
        return int(*a, **kw)

    def patched_bool(*a, **kw):
        with NoTracing():
            user = len(a) == 1 and not kw and _user_obj(a[0], '__bool__')
        if user:
            return type(a[0]).__bool__(a[0])
        return bool(*a, **kw)

    def patched_bytes(*a, **kw):
        with NoTracing():
            user = len(a) == 1 and not kw and _user_obj(a[0], '__bytes__')
        if user:
            return type(a[0]).__bytes__(a[0])
        return bytes(*a, **kw)

    def patched_str(*a, **kw):
        with NoTracing():
            symint = len(a) == 1 and not kw and isinstance(a[0], SymbolicInt)
            if symint:
                return DecStr(a[0])
        return str(*a, **kw)

    from pytezos.michelson.micheline import Micheline

    def patched_repr(x):
        with NoTracing():
            is_m = isinstance(x, Micheline)
        if is_m:
            return '<v>'
        return repr(x)

    layer = {int: patched_int, bool: patched_bool, bytes: patched_bytes, str: patched_str, repr: patched_repr}

    orig_enter, orig_exit = xcore.Patched.__enter__, xcore.Patched.__exit__

    def enter(self):
        r = orig_enter(self)
        COMPOSITE_TRACER.patching_module.add(layer)
        return r

    def exit_(self, *a):
        COMPOSITE_TRACER.patching_module.pop(layer)
        return orig_exit(self, *a)

    xcore.Patched.__enter__ = enter
    xcore.Patched.__exit__ = exit_

    def _fmt_stub_factory(orig):
        def stub(*a, **kw):
            if is_tracing():
                return ''
            return orig(*a, **kw)

        stub._vf_stub = True
        return stub

    import pytezos.michelson.instructions  # noqa
    import pytezos.michelson.repl  # noqa

    for name, mod in list(sys.modules.items()):
        if name.startswith('pytezos.michelson') and hasattr(mod, 'format_stdout'):
            f = mod.format_stdout
            if not getattr(f, '_vf_stub', False):
                mod.format_stdout = _fmt_stub_factory(f)
