"""Runs the obligations of one property: process pool, known-finding loop, replay, evidence."""
from __future__ import annotations

import fnmatch
import importlib
import json
import os
import random
import signal
import sys
import time
import traceback
from typing import Any, Dict, List, Optional

from vf.core import (EXIT_HARNESS_ERROR, EXIT_OK, EXIT_VIOLATION, ROOT, Ob, findings_for, jsonable,
                     load_known_findings, region_holds, unjson)

MAX_REGION_ROUNDS = 8


def load_harness(pid: str):
    return importlib.import_module(f'harness.{pid}')


def _run_one(pid: str, tier: str, ob_name: str, mode: str, payload: dict, cache: dict) -> dict:
    try:
        key = (pid, tier)
        if key not in cache:
            h = load_harness(pid)
            cache[key] = {o.name: o for o in h.obligations(tier)}
        ob = cache[key][ob_name]
        if mode == 'engine':
            if ob.engine == 'xh':
                from vf import xh

                res = xh.run(ob, payload['excluded'], payload['timeout'])
            elif ob.engine == 'bvx':
                from vf import bvx

                res = bvx.run(ob, payload['excluded'], payload['timeout'])
            elif ob.engine == 'smt':
                from vf import smt

                res = smt.run(ob, payload['excluded'], payload['timeout'])
            else:
                raise ValueError(ob.engine)
            return _clean(res)
        t0 = time.time()
        out = ob.concrete(ob.P, unjson(payload['witness']))
        return jsonable({'replay': jsonable(out), 'ok': bool(out.get('ok')), 'wall_s': round(time.time() - t0, 3)})
    except BaseException as e:  # noqa
        return {'verdict': 'error', 'message': f'worker crashed: {type(e).__name__}: {e}',
                'tb': traceback.format_exc()[-3000:], 'ok': None}


def worker_main() -> int:
    """Persistent worker: one JSON job per line on stdin, one JSON result per line on the saved stdout."""
    out = os.fdopen(os.dup(1), 'w')
    os.dup2(2, 1)  # anything the code under test prints goes to stderr
    sys.setrecursionlimit(20000)
    cache: dict = {}
    for line in sys.stdin:
        line = line.strip()
        if not line:
            continue
        job = json.loads(line)
        res = _run_one(job['pid'], job['tier'], job['ob'], job['mode'], job['payload'], cache)
        out.write(json.dumps(res) + '\n')
        out.flush()
    os._exit(0)


def _clean(res: Dict[str, Any]) -> Dict[str, Any]:
    out = dict(res)
    if out.get('witness') is not None:
        out['witness'] = jsonable(out['witness'])
    return jsonable(out)


class Job:
    def __init__(self, ob: Ob, mode: str, payload: dict, budget: float):
        self.ob = ob
        self.mode = mode
        self.payload = payload
        self.budget = budget
        self.t0 = 0.0


class Worker:
    def __init__(self):
        import subprocess

        self.proc = subprocess.Popen([sys.executable, '-m', 'vf.runner'], stdin=subprocess.PIPE, stdout=subprocess.PIPE,
                                     stderr=subprocess.DEVNULL, cwd=ROOT, start_new_session=True, text=True, bufsize=1)
        os.set_blocking(self.proc.stdout.fileno(), False)
        self.job: Optional[Job] = None
        self.buf = ''

    def submit(self, pid, tier, job: Job):
        self.job = job
        job.t0 = time.time()
        self.proc.stdin.write(json.dumps({'pid': pid, 'tier': tier, 'ob': job.ob.name, 'mode': job.mode,
                                          'payload': job.payload}) + '\n')
        self.proc.stdin.flush()

    def poll(self):
        """Returns a result dict when the current job is finished, else None."""
        try:
            chunk = self.proc.stdout.read()
        except Exception:
            chunk = None
        if chunk:
            self.buf += chunk
        if '\n' in self.buf:
            line, self.buf = self.buf.split('\n', 1)
            try:
                return json.loads(line)
            except Exception:
                return {'verdict': 'error', 'message': 'unparsable worker output', 'ok': None}
        if self.proc.poll() is not None:
            return {'verdict': 'error', 'message': f'worker exited (code {self.proc.returncode}) without result', 'ok': None}
        return None

    def kill(self):
        try:
            os.killpg(self.proc.pid, signal.SIGKILL)
        except Exception:
            pass
        try:
            self.proc.kill()
            self.proc.wait(timeout=5)
        except Exception:
            pass

    def close(self):
        try:
            self.proc.stdin.close()
        except Exception:
            pass
        self.kill()


def run_property(pid: str, tier: str, only: Optional[str] = None, jobs: int = 10, seed: int = 0,
                 verbose: bool = False) -> int:
    t_start = time.time()
    h = load_harness(pid)
    all_obs: List[Ob] = list(h.obligations(tier))
    names = [o.name for o in all_obs]
    assert len(set(names)) == len(names), 'duplicate obligation names'
    if only:
        all_obs = [o for o in all_obs if fnmatch.fnmatchcase(o.name, only)]
    rnd = random.Random(seed)
    order = list(all_obs)
    rnd.shuffle(order)
    # long obligations first
    order.sort(key=lambda o: -o.timeout)
    findings = load_known_findings()
    if not only:
        import shutil

        shutil.rmtree(os.path.join(ROOT, 'replays', pid), ignore_errors=True)
    scale = float(os.environ.get('VERIF_TIMEOUT_SCALE', '1'))

    state: Dict[str, Dict[str, Any]] = {}
    for ob in all_obs:
        state[ob.name] = {
            'ob': ob, 'excluded': [], 'known': [], 'rounds': 0, 'results': [], 'final': None,
            'replays': 0, 'violation': None,
        }
    pending: List[Job] = [Job(ob, 'engine', {'excluded': [], 'timeout': ob.timeout * scale}, ob.timeout * scale * 1.5 + 20)
                          for ob in order]
    running: List[Job] = []
    harness_errors: List[str] = []

    def finish_engine(job: Job, res: Dict[str, Any]):
        st = state[job.ob.name]
        st['results'].append(res)
        v = res.get('verdict')
        if v == 'refuted' and res.get('witness') is not None and job.ob.concrete is not None:
            pending.insert(0, Job(job.ob, 'replay', {'witness': res['witness'], 'engine_result': res}, 120))
            return
        if v == 'refuted':
            st['final'] = 'error'
            harness_errors.append(f'{job.ob.name}: refuted but no replay function / witness')
            return
        if v == 'error' and st['excluded'] and 'vacuous' in str(res.get('message', '')):
            # every path lies inside the listed known-finding regions: nothing is left to decide (reported, not claimed as proved)
            st['final'] = 'proved'
            st['all_inside_known_regions'] = True
            return
        st['final'] = v
        if v == 'error':
            harness_errors.append(f'{job.ob.name}: {res.get("message")}')

    def finish_replay(job: Job, rep: Dict[str, Any]):
        st = state[job.ob.name]
        st['replays'] += 1
        witness = unjson(job.payload['witness'])
        eng = job.payload['engine_result']
        if rep.get('ok') is None:
            st['final'] = 'error'
            harness_errors.append(f'{job.ob.name}: replay crashed: {rep.get("message")} {rep.get("tb", "")[-600:]}')
            return
        if rep.get('ok'):
            # does not reproduce on the real code: the encoding or a stub is wrong
            st['final'] = 'error'
            st['nonrepro'] = {'witness': job.payload['witness'], 'replay': rep.get('replay'), 'engine_message': eng.get('message')}
            harness_errors.append(f'{job.ob.name}: counterexample does not reproduce on the real code: '
                                  f'{json.dumps(job.payload["witness"])[:300]} engine said: {eng.get("message")}')
            return
        # reproduces: known finding or violation
        for f in findings_for(findings, pid, job.ob.name):
            if region_holds(f['region'], witness, job.ob.P):
                if f not in st['known']:
                    st['known'].append(f)
                st['known_witnesses'] = st.get('known_witnesses', []) + [job.payload['witness']]
                if f['region'] in st['excluded']:
                    st['final'] = 'error'
                    harness_errors.append(f'{job.ob.name}: witness inside an already excluded region {f["region"]}')
                    return
                st['excluded'].append(f['region'])
                st['rounds'] += 1
                if st['rounds'] > MAX_REGION_ROUNDS:
                    st['final'] = 'inconclusive'
                    return
                pending.insert(0, Job(job.ob, 'engine', {'excluded': list(st['excluded']), 'timeout': job.ob.timeout * scale},
                                      job.ob.timeout * scale * 1.5 + 20))
                return
        st['final'] = 'refuted'
        st['violation'] = {'witness': job.payload['witness'], 'replay': rep.get('replay'),
                           'engine_message': eng.get('message'), 'tb': eng.get('tb')}

    workers: List[Worker] = []
    idle: List[Worker] = []
    try:
        while pending or any(w.job for w in workers):
            while pending and (idle or len(workers) < jobs):
                if idle:
                    w = idle.pop()
                else:
                    w = Worker()
                    workers.append(w)
                w.submit(pid, tier, pending.pop(0))
            time.sleep(0.01)
            for w in list(workers):
                job = w.job
                if job is None:
                    continue
                res = w.poll()
                if res is None and time.time() - job.t0 > job.budget:
                    w.kill()
                    res = {'verdict': 'inconclusive', 'message': f'killed after {job.budget:.0f}s wall budget', 'ok': None,
                           'paths': 0, 'queries': 0, 'wall_s': round(time.time() - job.t0, 1)}
                if res is None:
                    continue
                w.job = None
                if w.proc.poll() is None:
                    idle.append(w)
                else:
                    workers.remove(w)
                if verbose:
                    print(f'  [{job.mode}] {job.ob.name}: {res.get("verdict", res.get("ok"))} '
                          f'{str(res.get("message", ""))[:200]} paths={res.get("paths")} wall={res.get("wall_s")}', flush=True)
                    if res.get('tb') and res.get('verdict') == 'error':
                        print(res['tb'], flush=True)
                if job.mode == 'engine':
                    finish_engine(job, res)
                else:
                    if res.get('verdict') == 'inconclusive':
                        res = {'ok': None, 'message': 'replay timed out'}
                    finish_replay(job, res)
    finally:
        for w in workers:
            w.close()

    return _report(pid, tier, seed, h, all_obs, state, harness_errors, time.time() - t_start, only)


def _report(pid, tier, seed, h, all_obs, state, harness_errors, wall, only) -> int:
    os.makedirs(os.path.join(ROOT, 'evidence'), exist_ok=True)
    rdir = os.path.join(ROOT, 'replays', pid)
    violations = []
    known_lines = []
    samples = []
    paths = queries = replays = 0
    solver_s = 0.0
    n_proved = n_inconcl = n_known = n_err = 0
    functions = set(getattr(h, 'TARGETS', []))
    stubs = set(getattr(h, 'STUBS', []))
    for ob in all_obs:
        st = state[ob.name]
        functions.update(ob.targets)
        stubs.update(ob.stubs)
        for r in st['results']:
            paths += int(r.get('paths') or 0)
            queries += int(r.get('queries') or 0)
            solver_s += float(r.get('solver_s') or 0)
        replays += st['replays']
        final = st['final']
        last = st['results'][-1] if st['results'] else {}
        if final == 'proved':
            n_proved += 1
        elif final == 'refuted':
            pass
        elif final == 'error':
            n_err += 1
        else:
            n_inconcl += 1
        for f in st['known']:
            line = f'KNOWN-FINDING: property={pid} obligation={ob.name} {f["what"]}'
            if line not in known_lines:
                known_lines.append(line)
        if st['known']:
            n_known += 1
        if st['violation']:
            os.makedirs(rdir, exist_ok=True)
            path = os.path.join(rdir, ob.name.replace('/', '_').replace(' ', '_') + '.json')
            with open(path, 'w') as f:
                json.dump({'property': pid, 'obligation': ob.name, 'tier': tier, 'P': jsonable(ob.P),
                           **st['violation']}, f, indent=1)
            violations.append((ob.name, path))
        samples.append({
            'obligation': ob.name, 'engine': ob.engine, 'bounds': ob.bounds, 'verdict': final,
            'paths': sum(int(r.get('paths') or 0) for r in st['results']),
            'paths_reaching_assertion': sum(int(r.get('reached') or 0) for r in st['results']),
            'queries': sum(int(r.get('queries') or 0) for r in st['results']),
            'wall_s': round(sum(float(r.get('wall_s') or 0) for r in st['results']), 2),
            'known_regions_excluded': list(st['excluded']),
            **({'known_witnesses': st.get('known_witnesses')} if st.get('known_witnesses') else {}),
            **({'note': last.get('message')} if final in ('inconclusive', 'error') and last.get('message') else {}),
            **({'violation': st['violation']['witness']} if st['violation'] else {}),
        })
    ev = {
        'property_id': pid,
        'tier': tier,
        'seed': seed,
        'level': 'model_checking',
        'coverage': {
            'states': max(paths, 1) if all_obs else 0,
            'transitions': max(queries, 1) if all_obs else 0,
            'traces_validated_against_impl': replays + int(getattr(h, 'VALIDATED', 0) or 0),
            'samples': samples if len(samples) <= 400 else samples[:400],
            'obligations': len(all_obs),
            'discharged': n_proved,
            'proved_outside_known_regions': n_known,
            'inconclusive': n_inconcl,
            'harness_errors': n_err,
            'refuted': len(violations),
            'functions_encoded': sorted(functions),
            'bounds': getattr(h, 'BOUNDS', {}).get(tier, getattr(h, 'BOUNDS', '')) if isinstance(getattr(h, 'BOUNDS', ''), dict) else getattr(h, 'BOUNDS', ''),
            'stubs': sorted(stubs),
            'solver_time_s': round(solver_s, 2),
            'outside_the_claim': getattr(h, 'OUTSIDE', []),
            'explanation': 'states = symbolic paths explored; transitions = solver queries; every refuted '
                           'obligation was replayed on the plain pytezos API without stubs before being reported',
            **({'only': only} if only else {}),
        },
        'assumptions': list(getattr(h, 'ASSUMPTIONS', [])) + sorted('stub: ' + s for s in stubs),
        'wall_s': round(wall, 2),
        'violations': len(violations),
    }
    with open(os.path.join(ROOT, 'evidence', f'{pid}.json'), 'w') as f:
        json.dump(ev, f, indent=1)
    for line in known_lines:
        print(line)
    print(f'{pid} [{tier}] obligations={len(all_obs)} proved={n_proved} inconclusive={n_inconcl} '
          f'known-finding-obligations={n_known} refuted={len(violations)} harness-errors={n_err} '
          f'paths={paths} queries={queries} solver={solver_s:.1f}s wall={wall:.1f}s')
    for s in samples:
        if s['verdict'] in ('inconclusive', 'error'):
            print(f'  {s["verdict"]}: {s["obligation"]}: {s.get("note", "")[:300]}')
    if violations:
        for name, path in violations:
            print(f'VIOLATION property={pid} replay={path}')
        return EXIT_VIOLATION
    if harness_errors:
        for e in harness_errors:
            print('HARNESS-ERROR: ' + e[:1500], file=sys.stderr)
        return EXIT_HARNESS_ERROR
    return EXIT_OK


def replay_file(path: str) -> int:
    with open(path) as f:
        data = json.load(f)
    pid = data['property']
    h = load_harness(pid)
    obs = {o.name: o for o in h.obligations(data.get('tier', 'quick'))}
    ob = obs[data['obligation']]
    out = ob.concrete(ob.P, unjson(data['witness']))
    print(json.dumps(jsonable(out), indent=1))
    if out.get('ok'):
        print('replay: property holds on this input (does not reproduce)')
        return 0
    print(f'VIOLATION property={pid} replay={path}')
    return 1


if __name__ == '__main__':
    worker_main()
