"""C28 Multi-node clients rotate through nodes regardless of failures."""
from vf.core import Ob

TARGETS = ['pytezos.rpc.node.RpcMultiNode.request', 'pytezos.rpc.node.RpcMultiNode.__init__', 'pytezos.rpc.node.RpcNode.request', 'pytezos.rpc.node.RpcNode.__init__',
           'pytezos.rpc.node._is_transient_response']
STUBS = ['requests.request -> fake recording the URL; what each client request meets is chosen by the solver: 200 | 404 (RpcError) | 500 permanent (RpcError) | transport exception '
         '(requests ConnectionError) | one transient 5xx then 200 | two transient 5xx then 404 | six transient 5xx (retries exhausted)',
         'pytezos.rpc.node.sleep -> no-op', 'json.dumps/pformat in log lines -> constant']
BOUNDS = {'quick': 'pools of 1..4 nodes; (a) distinct addresses, 5 client requests, every outcome vector over the 7 outcome kinds; (b) every pool whose slots are chosen among two addresses '
                   '(one of them also written with a trailing slash), 4 client requests over 3 outcome kinds; (c) 2..3 nodes, 3 client requests each issued through request/get/post/delete over 4 outcome kinds',
          'thorough': '6 client requests in (a), 5 in (b)'}
OUTSIDE = ['more than 4 nodes / longer request sequences', 'HTTP transport itself']
ASSUMPTIONS = ['a failing request is one for which RpcNode.request raises (RpcError for an HTTP error status, or the transport exception raised by requests)',
               'client request i (0-based) must send every one of its HTTP calls (including internal retries of transient errors) to the address configured in slot i mod n']

OK, E404, E500, ECONN, T1_OK, T2_404, T6 = range(7)
KINDS = ['200', '404', '500-permanent', 'connection-error', 'transient-then-200', 'transient-x2-then-404', 'transient-x6']
SCRIPTS = {OK: ['200'], E404: ['404'], E500: ['500'], ECONN: ['conn'], T1_OK: ['T', '200'], T2_404: ['T', 'T', '404'], T6: ['T'] * 6}
ADDR = ['http://node-a', 'http://node-b', 'http://node-a/']


class _Resp:
    def __init__(self, kind):
        self.status_code = {'200': 200, '404': 404, '500': 500, 'T': 503}[kind]
        if kind == 'T':
            self.headers = {'content-type': 'application/json'}
            self._json = [{'id': 'node.prevalidation.busy', 'kind': 'temporary'}]
            self.text = '[{"id": "node.prevalidation.busy", "kind": "temporary"}]'
        else:
            self.headers = {'content-type': 'text/plain'}
            self._json = {}
            self.text = 'x'

    def json(self):
        return self._json


VIA = ['request', 'get', 'post', 'delete']   # how the client request is issued (the convenience verbs go through request())


def _drive(uris, outcomes, vias=None):
    """-> list (one entry per client request) of the URLs hit by that request"""
    import requests.exceptions

    from pytezos.rpc import node as N
    from vf.stubs import const_stub, json_log_stub, patched

    hits = []
    script = []

    def fake_request(method, url, **kw):
        hits[-1].append(url)
        if not script:
            return _Resp('200')    # an HTTP call beyond the scripted outcome: recorded in hits, judged by _verdict (wrong number of calls / wrong node)
        kind = script.pop(0)
        if kind == 'conn':
            raise requests.exceptions.ConnectionError('refused')
        return _Resp(kind)

    with patched((N.requests, 'request', fake_request), (N, 'sleep', lambda d: None),
                 (N, 'json', json_log_stub(N.json)), (N, 'pformat', const_stub('<pformat>'))):
        mn = N.RpcMultiNode(list(uris))
        for o in outcomes:
            hits.append([])
            script[:] = list(SCRIPTS[o])
            via = VIA[vias[len(hits) - 1]] if vias else 'request'
            try:
                if via == 'request':
                    mn.request('GET', 'chains/main/blocks/head')
                elif via == 'post':
                    mn.post('chains/main/blocks/head', json={})
                else:
                    getattr(mn, via)('chains/main/blocks/head')
            except (N.RpcError, requests.exceptions.ConnectionError):
                pass
    return hits


def _norm(u):
    return u.rstrip('/')


def _verdict(uris, outcomes, vias=None):
    hits = _drive(uris, outcomes, vias)
    n = len(uris)
    problems = []
    for i, (o, h) in enumerate(zip(outcomes, hits)):
        want = _norm(uris[i % n])
        if len(h) != len(SCRIPTS[o]):
            problems.append(f'request {i} ({KINDS[o]}) made {len(h)} HTTP calls, expected {len(SCRIPTS[o])}')
        for url in h:
            host = _norm(url.split('/chains/')[0])
            if host != want:
                problems.append(f'request {i} ({KINDS[o]}) went to {host}, slot {i % n} is {want}')
                break
    return problems, hits


def _decode(P, get):
    n, k = P['n'], P['k']
    if P['family'] == 'distinct':
        uris = [f'http://node{i}' for i in range(n)]
        outs = [get(f'o{i}', 0, 6) for i in range(k)]
        if P.get('verbs'):
            outs = [[OK, E404, E500, T1_OK][get(f'o{i}', 0, 3)] for i in range(k)]
    else:
        uris = [ADDR[get(f'u{i}', 0, 2)] for i in range(n)]
        outs = [[OK, E404, T1_OK][get(f'o{i}', 0, 2)] for i in range(k)]
    return uris, outs


def _vias(P, get):
    return [get(f'm{i}', 0, len(VIA) - 1) for i in range(P['k'])] if P.get('verbs') else None


def sym(P, ex):
    from harness import mbv

    uris, outs = _decode(P, lambda name, lo, hi: mbv._choose(ex, name, lo, hi))
    problems, _ = _verdict(uris, outs, _vias(P, lambda name, lo, hi: mbv._choose(ex, name, lo, hi)))
    if problems:
        ex.fail_here(problems[0])
    ex.check(True)


def concrete(P, w):
    uris, outs = _decode(P, lambda name, lo, hi: int(w.get(name, lo)))
    problems, hits = _verdict(uris, outs, _vias(P, lambda name, lo, hi: int(w.get(name, lo))))
    return {'ok': not problems, 'pool': uris, 'outcomes': [KINDS[o] for o in outs], 'observed': problems[:3], 'hits': hits}


def obligations(tier):
    q = tier == 'quick'
    obs = []
    for n in (1, 2, 3, 4):
        k = 5 if q else 6
        obs.append(Ob(name=f'rotation/n={n}/k={k}', engine='bvx', sym=sym, concrete=concrete, P={'family': 'distinct', 'k': k, 'n': n},
                      timeout=600 if q else 3000, bounds=f'{n} node(s) with distinct addresses, {k} client requests, what each meets is chosen by the solver among 7 kinds',
                      targets=TARGETS, stubs=STUBS, opts={'W': 16}))
    for n in ((2, 3) if q else (2, 3, 4)):
        k = 3       # 16^k (verb, outcome) vectors per pool; k = 4 is not measured
        obs.append(Ob(name=f'rotation/verbs/n={n}/k={k}', engine='bvx', sym=sym, concrete=concrete, P={'family': 'distinct', 'k': k, 'n': n, 'verbs': True},
                      timeout=600 if q else 3000, bounds=f'{n} nodes, {k} client requests, each issued through request/get/post/delete (solver-chosen) and meeting one of 4 kinds (200, 404, 500, transient then 200)',
                      targets=TARGETS + ['pytezos.rpc.node.RpcNode.get/post/delete'], stubs=STUBS, opts={'W': 16}))
    for n in (2, 3, 4):
        k = 4 if q else 5
        obs.append(Ob(name=f'rotation/repeated-addresses/n={n}/k={k}', engine='bvx', sym=sym, concrete=concrete, P={'family': 'repeated', 'k': k, 'n': n},
                      timeout=600 if q else 3000, bounds=f'{n} slots, each one of 3 spellings of 2 addresses (solver-chosen), {k} client requests over 3 kinds',
                      targets=TARGETS, stubs=STUBS, opts={'W': 16}))
    return obs
