#!/bin/bash
# tools/round_pre.sh <seed-dir> : in a scratch worktree (never /repo) - demo on clean tree, demo with the patch, test-suite with the patch
D="$1"; N=$(echo "$D" | tr '/' '_')
WT=/tmp/pre_wt_$N
git -C /repo worktree add -q --detach "$WT" HEAD || exit 9
( cd "$WT" && PYTHONPATH="$WT/src" timeout 300 /venv/bin/python "$D/demo.py" >/dev/null 2>&1 ); A=$?
( cd "$WT" && git apply "$D/patch.diff" ) || { echo "$D PATCH DOES NOT APPLY"; git -C /repo worktree remove --force "$WT"; exit 9; }
( cd "$WT" && PYTHONPATH="$WT/src" timeout 300 /venv/bin/python "$D/demo.py" >/dev/null 2>&1 ); B=$?
T=$(BASE_TREE="$WT" python3 /verif/tools/baseline.py 4 | head -3 | tr '\n' ' ')
git -C /repo worktree remove --force "$WT"
echo "$D demo: clean=$A patched=$B tests: $T" | tee "$D/pre.txt"
