"""A simulated Tezos node behind the `shell` query object used by OperationGroup / ExecutionContext.

Only the RPC paths that fill / autofill / sign / inject touch are served; any other path raises so that
an unmodelled dependency is noticed instead of silently answered.  The answers (account counter, mempool
contents, constants, simulation results) are supplied by the harness and may be symbolic proxies.
"""
from typing import Any, Callable, Dict, List, Optional

BRANCH = 'BKpbfCvh777DQHnXjU2sqHvVUNZ7dBAdqEfKkdw8EGSkD9LSYXb'
CHAIN_ID = 'NetXdQprcVkpaWU'
PROTOCOL = 'PsRiotumaAMotcRoDWW1bysEhQy2n1M5fy8JgRp8jjRfHGmfeA7'

# secret exponents of the fixed accounts (one per curve); the properties checked with them quantify over
# the *data* (counters, sizes, gas, chain ids ...), the keys themselves are plain concrete objects
SECRETS = {'tz1': b'\x11' * 32, 'tz2': b'\x12' * 32, 'tz3': b'\x13' * 32, 'tz4': (0x3039).to_bytes(32, 'little')}
CURVES = {'tz1': b'ed', 'tz2': b'sp', 'tz3': b'p2', 'tz4': b'BL'}
SIGLEN = {'tz1': 64, 'tz2': 64, 'tz3': 64, 'tz4': 96}

_keys: Dict[str, Any] = {}


def key(kind: str):
    from pytezos.crypto.key import Key

    if kind not in _keys:
        _keys[kind] = Key.from_secret_exponent(SECRETS[kind], curve=CURVES[kind])
    return _keys[kind]


class Unmodelled(Exception):
    pass


class Q:
    """shell.a.b['c'].d()  ->  node.get(('a','b','c','d'));  .post(...) -> node.post(path, ...)"""

    def __init__(self, node, path=()):
        self.__dict__['_node'] = node
        self.__dict__['_path'] = path

    def __getattr__(self, name):
        if name.startswith('__'):
            raise AttributeError(name)
        return Q(self._node, self._path + (name,))

    def __getitem__(self, k):
        return Q(self._node, self._path + (k,))

    def __call__(self, *a, **kw):
        if self._path and self._path[-1] == 'post':
            return self._node.post(self._path[:-1], a, kw)
        return self._node.get(self._path, a, kw)

    def __bool__(self):
        return True


class Node:
    """Account state + mempool; evolves with injections."""

    def __init__(self, pkh: str, counter, pending: Optional[List[dict]] = None, constants: Optional[dict] = None,
                 simulate: Optional[Callable[[dict], dict]] = None, inject_fails: Optional[Callable[[int], bool]] = None):
        self.pkh = pkh
        self.counter = counter            # counter of the account at head
        self.pending = list(pending or [])  # mempool: applied operations [{'contents': [{'source':..}, ..]}]
        self.unprocessed: List[Any] = []
        self.constants = constants or {'hard_gas_limit_per_operation': '1040000', 'hard_storage_limit_per_operation': '60000',
                                       'minimal_block_delay': '8'}
        self.simulate = simulate
        self.inject_fails = inject_fails or (lambda i: False)
        self.injected: List[bytes] = []
        self.attempts = 0
        self.log: List[tuple] = []

    def shell(self):
        return Q(self)

    # --- RPC ---------------------------------------------------------------------------------
    def get(self, path, a, kw):
        self.log.append(path)
        if len(path) == 3 and path[0] == 'blocks' and path[2] == 'hash':
            return BRANCH
        if path == ('head', 'context', 'constants'):
            return dict(self.constants)
        if path == ('head', 'voting_period'):
            return 1
        if len(path) == 2 and path[0] == 'contracts':
            if path[1] != self.pkh:
                raise Unmodelled(f'counter of a foreign account {path[1]}')
            return {'counter': self._str(self.counter), 'balance': '1000000000'}
        if path == ('mempool', 'pending_operations'):
            return {'applied': list(self.pending), 'refused': [], 'branch_refused': [], 'branch_delayed': [], 'unprocessed': list(self.unprocessed)}
        if path == ('chains', 'main', 'chain_id'):
            return CHAIN_ID
        if path == ('version',):
            return {'network_version': {'chain_name': 'TEZOS_MAINNET'}}
        if path == ('head', 'header'):
            return {'protocol': PROTOCOL, 'level': 100}
        raise Unmodelled('GET ' + '/'.join(map(str, path)))

    def post(self, path, a, kw):
        self.log.append(path + ('post',))
        if path[-1] == 'run_operation':
            if self.simulate is None:
                raise Unmodelled('run_operation')
            return self.simulate(a[0] if a else kw)
        if path == ('injection', 'operation'):
            i = self.attempts
            self.attempts += 1
            if self.inject_fails(i):
                from pytezos.rpc.errors import RpcError

                raise RpcError({'id': 'proto.injection.failed', 'kind': 'temporary'})
            data = kw.get('operation', a[0] if a else None)
            self.injected.append(data)
            return self.on_inject(data)
        raise Unmodelled('POST ' + '/'.join(map(str, path)))

    def on_inject(self, data):
        return 'oo' + 'x' * 49

    @staticmethod
    def _str(v):
        from vf import bvx

        if isinstance(v, (bvx.SymInt, bvx.IntZ)):
            return bvx.DecStr(v)
        return str(v)


def context(node: Node, k):
    from pytezos.context.impl import ExecutionContext

    return ExecutionContext(shell=node.shell(), key=k)


class FakeKey:
    """Stand-in for pytezos.crypto.key.Key where the curve arithmetic is not the subject: fixed identity, signatures are opaque tokens."""

    def __init__(self, kind: str, sign: Optional[Callable] = None):
        real = key(kind)
        self.kind = kind
        self.curve = CURVES[kind]
        self._pkh = real.public_key_hash()
        self._pk = real.public_key()
        self.activation_code = None
        self._sign = sign

    def public_key_hash(self):
        return self._pkh

    def public_key(self):
        return self._pk

    def sign(self, message, generic=False):
        if self._sign is None:
            raise Unmodelled('sign')
        return self._sign(message, generic)
