#!/bin/bash
# tools/run_all.sh [tier]: runs every claimed check on the current tree and reports exit codes (evidence files are rewritten)
cd /verif
TIER="${1:-quick}"
for id in $(python3 -c "import json; print(' '.join(c['property_id'] for c in json.load(open('MANIFEST.json'))['checks']))"); do
  s=$(date +%s); out=$(./check $id --tier $TIER 2>&1); rc=$?; e=$(date +%s)
  echo "$id rc=$rc $((e-s))s $(echo "$out" | grep -E "^$id " | tail -1 | cut -c1-150)"
  echo "$out" | grep -E "VIOLATION|HARNESS-ERROR|inconclusive:" | head -5
done
