"""C20 Tickets are never forged, duplicated, zeroed or merged incorrectly."""
import contextlib

from harness import mbv, mich
from vf.core import Ob

TARGETS = ['pytezos.michelson.instructions.ticket.TicketInstruction.execute', 'pytezos.michelson.instructions.ticket.SplitTicketInstruction.execute',
           'pytezos.michelson.instructions.ticket.JoinTicketsInstruction.execute', 'pytezos.michelson.instructions.ticket.ReadTicketInstruction.execute',
           'pytezos.michelson.types.ticket.TicketType.split/join/create/to_comb', 'pytezos.michelson.types.base.MichelsonType.is_duplicable/duplicate',
           'pytezos.michelson.instructions.stack.DupInstruction.execute', 'pytezos.michelson.instructions.stack.DupnInstruction.execute']
STUBS = ['hash() inside types/ticket.py (not called on the unchanged tree) -> model of CPython integer hashing on symbolic ints; hashing of other symbolic contents is outside the claim', 'execution context -> get_self_address() returns a fixed KT1 address', 'format_stdout -> no-op']
BOUNDS = 'amounts: all naturals (unbounded); contents: int (unbounded), string <= 2, pair int string, or int int, option int, pair (or int int) nat; ticketers from 2 addresses; one instruction from an arbitrary valid ticket state, plus SPLIT;JOIN and TICKET;SPLIT;JOIN programs'
OUTSIDE = ['ticket transfer between contracts', 'programs longer than 3 ticket instructions']
ASSUMPTIONS = ['state invariant: every existing ticket has a positive amount (what the property demands of every producer)']

SELF = 'KT1BEqzn5Wx8uJrZNvuS9DVHmLvG9td3fDLi'
OTHER = 'KT1Hkg5qeNhfwpKW4fXvq7HGZB9z2EnmCCA9'


class Ctx:
    def get_self_address(self):
        return SELF


def _ticket(ex, name, cty, ticketer=None, maxlen=2):
    from pytezos.michelson.types import TicketType

    if ticketer is None:
        ticketer = [SELF, OTHER][mbv._choose(ex, name + '#ticketer', 0, 1)]
    item = mbv.sym_value(ex, cty, name + '.item', maxlen)
    amount = ex.int(name + '.amount')
    ex.assume(amount >= 1)
    return TicketType.create(ticketer, item, amount)


def _conc_ticket(w, name, cty, ticketer=None):
    from pytezos.michelson.types import TicketType

    if ticketer is None:
        ticketer = [SELF, OTHER][int(w[name + '#ticketer'])]
    return TicketType.create(ticketer, mbv.conc_value(cty, w, name + '.item'), int(w[name + '.amount']))


def _tk(t):
    """abstraction of a ticket"""
    return (t.ticketer, mich.abstract(t.item), t.amount)


def _ticket_type_expr(cty):
    return {'prim': 'ticket', 'args': [mich.strip_annots(cty.as_micheline_expr())]}


# ---- TICKET -------------------------------------------------------------------------------------
def _run_ticket(item, amount):
    out = mich.run_instr(mich.I({'prim': 'TICKET'}), [item, mich.mk('nat', amount)], Ctx())
    return out[0]


@contextlib.contextmanager
def _hash_env():
    """hash() inside types/ticket.py -> model of CPython's integer hash on symbolic ints (x mod 2^61-1 with sign, -1 -> -2); other symbolic contents: outside the claim."""
    import pytezos.michelson.types.ticket as t_tic
    from vf import bvx

    M = (1 << 61) - 1

    def int_hash(v):
        if isinstance(v, (bvx.IntZ, bvx.SymInt)):
            neg = v < 0
            a = abs(v) % M
            h = bvx.IntZ(__import__('z3').If(bvx._b(neg), (-a).e if isinstance(a, bvx.IntZ) else bvx.bv(-a), a.e if isinstance(a, bvx.IntZ) else bvx.bv(a))) if isinstance(v, bvx.IntZ) else None
            if h is None:
                raise bvx.Abort()
            return bvx.IntZ(__import__('z3').If(h.e == -1, __import__('z3').IntVal(-2), h.e))
        return hash(v)

    def _hash(x):
        v = getattr(x, 'value', x)
        if isinstance(v, (bvx.IntZ, bvx.SymInt)):
            return int_hash(v)
        try:
            return hash(x)
        except TypeError:
            raise bvx.Abort()

    had = 'hash' in t_tic.__dict__
    old = t_tic.__dict__.get('hash')
    t_tic.hash = _hash
    try:
        yield
    finally:
        if had:
            t_tic.hash = old
        else:
            del t_tic.hash


def sym_ticket(P, ex):
    cty = mich.T(P['contents'])
    with mbv.env():
        item = mbv.sym_value(ex, cty, 'item', 2)
        amount = ex.int('amount')
        ex.assume(amount >= 0)
        try:
            r = _run_ticket(item, amount)
        except mich.Failed as e:
            ex.fail_here(f'TICKET failed: {e}')
        if r.item is None:
            ex.check(amount == 0, 'TICKET returns None only for amount 0')
        else:
            ex.check(amount > 0, 'TICKET with amount 0 must return None')
            ex.check(mich.deq(_tk(r.item), (SELF, mich.abstract(item), amount)), 'ticket = (self address, contents, amount)')
        ex.check(mich.type_expr(r) == {'prim': 'option', 'args': [_ticket_type_expr(cty)]}, 'result type option (ticket cty)')


def conc_ticket(P, w):
    cty = mich.T(P['contents'])
    item, amount = mbv.conc_value(cty, w, 'item'), int(w['amount'])
    try:
        r = _run_ticket(item, amount)
    except mich.Failed as e:
        return {'ok': False, 'observed': str(e)}
    ok = (r.item is None) == (amount == 0) and (r.item is None or _tk(r.item) == (SELF, mich.abstract(item), amount))
    ok = ok and mich.type_expr(r) == {'prim': 'option', 'args': [_ticket_type_expr(cty)]}
    return {'ok': ok, 'observed': repr(r), 'type': mich.type_expr(r), 'amount': amount}


# ---- SPLIT_TICKET ---------------------------------------------------------------------------------
def _run_split(t, a, b):
    return mich.run_instr(mich.I({'prim': 'SPLIT_TICKET'}), [t, mich.pair(mich.mk('nat', a), mich.mk('nat', b))], Ctx())[0]


def sym_split(P, ex):
    with _hash_env():
        return _sym_split(P, ex)


def _sym_split(P, ex):
    from vf import bvx

    cty = mich.T(P['contents'])
    with mbv.env():
        t = _ticket(ex, 't', cty)
        a, b = ex.int('a'), ex.int('b')
        ex.assume((a >= 0) & (b >= 0))
        bvx.apply_regions(ex, {'a': a, 'b': b}, P)
        try:
            r = _run_split(t, a, b)
        except mich.Failed as e:
            ex.fail_here(f'SPLIT_TICKET failed: {e}')
        valid = (a > 0) & (b > 0) & (a + b == t.amount)
        if r.item is None:
            ex.check(bvx.sym_not(valid), 'SPLIT_TICKET returns None only for a zero part or parts not summing to the amount')
        else:
            ex.check(valid, 'SPLIT_TICKET must return None for a zero part or a wrong sum (no zero-amount ticket is ever produced)')
            l, rr = r.item.items
            ex.check(mich.deq(_tk(l), (t.ticketer, mich.abstract(t.item), a)) & mich.deq(_tk(rr), (t.ticketer, mich.abstract(t.item), b)), 'the two parts')
            # joining the parts gives the original back (total preserved)
            j = mich.run_instr(mich.I({'prim': 'JOIN_TICKETS'}), [r.item], Ctx())[0]
            if j.item is None:
                ex.fail_here('JOIN_TICKETS of the two parts returned None')
            ex.check(mich.deq(_tk(j.item), _tk(t)), 'JOIN (SPLIT t) = t')
            ex.check(mich.type_expr(j) == {'prim': 'option', 'args': [_ticket_type_expr(cty)]}, 'type of the JOIN_TICKETS result')
        tt = _ticket_type_expr(cty)
        ex.check(mich.type_expr(r) == {'prim': 'option', 'args': [{'prim': 'pair', 'args': [tt, tt]}]}, 'result type')


def conc_split(P, w):
    cty = mich.T(P['contents'])
    t = _conc_ticket(w, 't', cty)
    a, b = int(w['a']), int(w['b'])
    try:
        r = _run_split(t, a, b)
    except mich.Failed as e:
        return {'ok': False, 'observed': str(e)}
    valid = a > 0 and b > 0 and a + b == t.amount
    tt = _ticket_type_expr(cty)
    ok = (r.item is not None) == valid
    detail = repr(r)
    if ok and valid:
        l, rr = r.item.items
        ok = _tk(l) == (t.ticketer, mich.abstract(t.item), a) and _tk(rr) == (t.ticketer, mich.abstract(t.item), b)
        try:
            j = mich.run_instr(mich.I({'prim': 'JOIN_TICKETS'}), [r.item], Ctx())[0]
            ok = ok and j.item is not None and _tk(j.item) == _tk(t) and mich.type_expr(j) == {'prim': 'option', 'args': [tt]}
            detail += ' join=' + repr(j) + ' ' + str(mich.type_expr(j))
        except Exception as e:  # noqa
            ok = False
            detail += f' join failed: {type(e).__name__}: {e}'
    try:
        ok = ok and mich.type_expr(r) == {'prim': 'option', 'args': [{'prim': 'pair', 'args': [tt, tt]}]}
    except Exception as e:  # noqa
        ok = False
        detail += f' type_expr failed: {type(e).__name__}: {e}'
    return {'ok': ok, 'observed': detail, 'expected': 'Some' if valid else 'None', 'amount': t.amount, 'a': a, 'b': b}


# ---- JOIN_TICKETS ---------------------------------------------------------------------------------
def sym_join(P, ex):
    with _hash_env():
        return _sym_join(P, ex)


def _sym_join(P, ex):
    from vf import bvx

    cty = mich.T(P['contents'])
    with mbv.env():
        t1, t2 = _ticket(ex, 't1', cty), _ticket(ex, 't2', cty)
        try:
            r = mich.run_instr(mich.I({'prim': 'JOIN_TICKETS'}), [mich.pair(t1, t2)], Ctx())[0]
        except mich.Failed as e:
            ex.fail_here(f'JOIN_TICKETS failed: {e}')
        same = mich._and(t1.ticketer == t2.ticketer, mich.deq(mich.abstract(t1.item), mich.abstract(t2.item)))
        if r.item is None:
            ex.check(bvx.sym_not(same), 'JOIN_TICKETS returns None only when ticketer or contents differ')
        else:
            ex.check(same, 'JOIN_TICKETS must return None when ticketer or contents differ')
            ex.check(mich.deq(_tk(r.item), (t1.ticketer, mich.abstract(t1.item), t1.amount + t2.amount)), 'amount is the sum')
        ex.check(mich.type_expr(r) == {'prim': 'option', 'args': [_ticket_type_expr(cty)]}, 'result type')


def conc_join(P, w):
    cty = mich.T(P['contents'])
    t1, t2 = _conc_ticket(w, 't1', cty), _conc_ticket(w, 't2', cty)
    same = t1.ticketer == t2.ticketer and mich.abstract(t1.item) == mich.abstract(t2.item)
    try:
        r = mich.run_instr(mich.I({'prim': 'JOIN_TICKETS'}), [mich.pair(t1, t2)], Ctx())[0]
        ok = (r.item is not None) == same and (r.item is None or _tk(r.item) == (t1.ticketer, mich.abstract(t1.item), t1.amount + t2.amount))
        ok = ok and mich.type_expr(r) == {'prim': 'option', 'args': [_ticket_type_expr(cty)]}
        return {'ok': ok, 'observed': repr(r), 'expected': 'Some' if same else 'None'}
    except Exception as e:  # noqa
        return {'ok': False, 'observed': f'{type(e).__name__}: {e}', 'expected': 'Some' if same else 'None'}


# ---- READ_TICKET / DUP ------------------------------------------------------------------------------
def sym_read(P, ex):
    cty = mich.T(P['contents'])
    with mbv.env():
        t = _ticket(ex, 't', cty)
        out = mich.run_instr(mich.I({'prim': 'READ_TICKET'}), [t], Ctx())
        ex.check(len(out) == 2, 'READ_TICKET pushes the pair and keeps the ticket')
        info, kept = out[0], out[1]
        ex.check(mich.deq(mich.abstract(info), ('pair', ('address', t.ticketer), ('pair', mich.abstract(t.item), ('nat', t.amount)))), 'pair ticketer contents amount')
        ex.check(kept is t or mich.deq(_tk(kept), _tk(t)), 'ticket unchanged')


def conc_read(P, w):
    cty = mich.T(P['contents'])
    t = _conc_ticket(w, 't', cty)
    out = mich.run_instr(mich.I({'prim': 'READ_TICKET'}), [t], Ctx())
    ok = len(out) == 2 and mich.abstract(out[0]) == ('pair', ('address', t.ticketer), ('pair', mich.abstract(t.item), ('nat', t.amount))) and _tk(out[1]) == _tk(t)
    return {'ok': ok, 'observed': repr(out)}


WRAPS = ['bare', 'pair nat T', 'pair nat nat T', 'option T', 'option (pair nat T)', 'list (option T)', 'or T nat', 'map nat T', 'pair (pair T nat) nat']


def _wrap(kind, t):
    from pytezos.michelson import types as ty

    n = mich.mk('nat', 1)
    if kind == 'bare':
        return t
    if kind == 'pair nat T':
        return mich.pair(n, t)
    if kind == 'pair nat nat T':
        return mich.pair(n, n, t)
    if kind == 'option T':
        return mich.some(t)
    if kind == 'option (pair nat T)':
        return mich.some(mich.pair(n, t))
    if kind == 'list (option T)':
        return ty.ListType.from_items([mich.some(t)])
    if kind == 'or T nat':
        return mich.left(t, ty.NatType)
    if kind == 'map nat T':
        return ty.MapType.from_items([(n, t)])
    if kind == 'pair (pair T nat) nat':
        return mich.pair(mich.pair(t, n), n)
    raise KeyError(kind)


def sym_dup(P, ex):
    cty = mich.T('int')
    with mbv.env():
        t = _ticket(ex, 't', cty)
        k = mbv._choose(ex, 'wrap', 0, len(WRAPS) - 1)
        v = _wrap(WRAPS[k], t)
        for ins, stack in (({'prim': 'DUP'}, [v]), ({'prim': 'DUP', 'args': [{'int': '2'}]}, [mich.mk('nat', 0), v]), ({'prim': 'DUP', 'args': [{'int': '1'}]}, [v])):
            try:
                out = mich.run_instr(mich.I(ins), list(stack), Ctx())
            except mich.Failed:
                continue
            ex.fail_here(f'{ins} duplicated a value containing a ticket ({WRAPS[k]}): stack depth {len(out)}')
        ex.check(True)


def conc_dup(P, w):
    cty = mich.T('int')
    t = _conc_ticket(w, 't', cty)
    kind = WRAPS[int(w['wrap'])]
    res = []
    for ins, mk in (({'prim': 'DUP'}, lambda v: [v]), ({'prim': 'DUP', 'args': [{'int': '2'}]}, lambda v: [mich.mk('nat', 0), v]), ({'prim': 'DUP', 'args': [{'int': '1'}]}, lambda v: [v])):
        try:
            mich.run_instr(mich.I(ins), mk(_wrap(kind, _conc_ticket(w, 't', cty))), Ctx())
            res.append('duplicated')
        except mich.Failed:
            res.append('failed')
    del t
    return {'ok': all(r == 'failed' for r in res), 'observed': res, 'value': kind}


def obligations(tier):
    t = 120 if tier == 'quick' else 600
    obs = []
    for c in ('int', 'string', 'pair int string'):
        P = {'contents': c}
        obs += [Ob(f'TICKET/{c}', 'bvx', sym_ticket, conc_ticket, P, timeout=t, bounds='all amounts, all contents', targets=TARGETS),
                Ob(f'SPLIT_TICKET/{c}', 'bvx', sym_split, conc_split, P, timeout=t, bounds='any ticket (amount >= 1), any parts; followed by JOIN_TICKETS', targets=TARGETS),
                Ob(f'JOIN_TICKETS/{c}', 'bvx', sym_join, conc_join, P, timeout=t, bounds='any two tickets', targets=TARGETS),
                Ob(f'READ_TICKET/{c}', 'bvx', sym_read, conc_read, P, timeout=t, bounds='any ticket', targets=TARGETS)]
    # contents whose equality has to look at which branch / whether a value is present (JOIN_TICKETS compares contents)
    for c in ('or int int', 'option int', 'pair (or int int) nat'):
        P = {'contents': c}
        obs += [Ob(f'JOIN_TICKETS/{c}', 'bvx', sym_join, conc_join, P, timeout=t, bounds='any two tickets', targets=TARGETS),
                Ob(f'SPLIT_TICKET/{c}', 'bvx', sym_split, conc_split, P, timeout=t, bounds='any ticket (amount >= 1), any parts; followed by JOIN_TICKETS', targets=TARGETS)]
    obs.append(Ob('DUP/ticket-bearing', 'bvx', sym_dup, conc_dup, timeout=t, bounds=f'DUP, DUP 1, DUP 2 on {len(WRAPS)} value shapes containing a ticket', targets=TARGETS))
    return obs
