#!/bin/bash
# tools/try_seed.sh <dir-with-patch.diff-and-demo.py> <property-id> [tier]
# 1. demo passes on the clean tree and fails with the patch (in a scratch worktree)
# 2. apply the patch to /repo, run the check, undo
set -u
D="$1"; PID="$2"; TIER="${3:-quick}"
WT=/tmp/try_seed_wt_$$
git -C /repo worktree add -q --detach "$WT" HEAD || exit 9
( cd "$WT" && PYTHONPATH="$WT/src" timeout 300 /venv/bin/python "$D/demo.py" >/dev/null 2>&1 ); A=$?
( cd "$WT" && git apply "$D/patch.diff" ) || { echo "PATCH DOES NOT APPLY"; git -C /repo worktree remove --force "$WT"; exit 9; }
( cd "$WT" && PYTHONPATH="$WT/src" timeout 300 /venv/bin/python "$D/demo.py" >/dev/null 2>&1 ); B=$?
git -C /repo worktree remove --force "$WT"
echo "demo: clean exit=$A patched exit=$B"
if [ "$A" != 0 ] || [ "$B" = 0 ]; then echo "DEMO INVALID"; fi
if [ -n "$(git -C /repo status --porcelain)" ]; then echo "/repo not clean"; exit 9; fi
git -C /repo apply "$D/patch.diff" || exit 9
cd /verif && ./check "$PID" --tier "$TIER" 2>&1 | grep -E "VIOLATION|KNOWN|HARNESS|^$PID|inconclusive|error" | head -20
echo "check exit=${PIPESTATUS[0]}"
git -C /repo checkout -- .
git -C /verif checkout -- evidence 2>/dev/null
