#!/bin/bash
# tools/seed_round2.sh <id>...: prepares worktree + prompt (with the list of already tried changes) for another seed round
for p in "$@"; do
  rm -rf /tmp/seed_out/$p; mkdir -p /tmp/seed_out/$p /tmp/seed_wt
  git -C /repo worktree add -q --detach /tmp/seed_wt/$p HEAD || exit 1
  python3 /verif/tools/seed_prompt.py $p > /tmp/seed_prompt_$p.txt
  python3 - "$p" >> /tmp/seed_prompt_$p.txt <<'PY'
import glob, json, sys, re
pid = sys.argv[1]
print("\nAdditional constraint: the following changes were already tried by others; yours must be in DIFFERENT functions and exercise different aspects of the property:")
for d in sorted(glob.glob(f'/verif/seeded/{pid}-*')):
    m = json.load(open(d + '/meta.json'))
    print(' - ' + re.sub(r'\s+', ' ', m.get('summary', ''))[:220])
PY
  echo prepared $p
done
