"""CLI: ./check <id> [--tier quick|thorough] [--only glob] [--replay file] [--list] [-v]"""
import argparse
import os
import sys

from vf import runner


def main(argv=None) -> int:
    ap = argparse.ArgumentParser()
    ap.add_argument('pid')
    ap.add_argument('--tier', default=os.environ.get('VERIF_TIER', 'quick'), choices=['quick', 'thorough'])
    ap.add_argument('--only', default=None)
    ap.add_argument('--replay', default=None)
    ap.add_argument('--list', action='store_true')
    ap.add_argument('-j', '--jobs', type=int, default=int(os.environ.get('VERIF_JOBS', '10')))
    ap.add_argument('-v', '--verbose', action='store_true')
    a = ap.parse_args(argv)
    seed = int(os.environ.get('VERIF_SEED', '0') or 0)
    if a.replay:
        return runner.replay_file(a.replay)
    if a.list:
        h = runner.load_harness(a.pid)
        for ob in h.obligations(a.tier):
            print(f'{ob.engine:4s} {ob.timeout:6.0f}s  {ob.name}   [{ob.bounds}]')
        return 0
    return runner.run_property(a.pid, a.tier, only=a.only, jobs=a.jobs, seed=seed, verbose=a.verbose)


if __name__ == '__main__':
    sys.exit(main())
