"""C27 Node errors map to the most specific registered error class."""
from vf.core import Ob
from vf.xh import assume

TARGETS = ['pytezos.rpc.node._gen_error_variants', 'pytezos.rpc.node.RpcError.from_errors']
STUBS = []
BOUNDS = ('error lists of length 1..3; last identifier of the forms proto.<P>.<C>.<N>, proto.<P>.<C>.<D>.<N>, <C>.<N>, <N>; every '
          'component chosen by the solver from the tokens of all registered handler keys plus two unregistered tokens')
OUTSIDE = ['identifiers with more than 5 components', 'unregistered tokens other than the two placeholders (only equality with '
           'registered keys is ever tested by the code, so their spelling is immaterial)']
ASSUMPTIONS = ['priority order as stated by the property: full id, id without proto.<protocol>., final component, category (second to last component), else RpcError']


def tokens():
    from pytezos.rpc.node import RpcError
    import pytezos.rpc.errors  # noqa: registers the handlers

    toks = []
    for key in RpcError.__handlers__:
        if not isinstance(key, str):
            continue        # a malformed registration: reported by the `declared-ids-are-registered` obligation
        for t in key.split('.'):
            if t not in toks:
                toks.append(t)
    return toks + ['zzfresh', 'alpha']


FORMS = ['proto.P.C.N', 'proto.P.C.D.N', 'C.N', 'N', 'P.C.N']


def build(form, toks, p, c, d, n):
    parts = []
    for x in form.split('.'):
        parts.append({'proto': 'proto', 'P': toks[p], 'C': toks[c], 'D': toks[d], 'N': toks[n]}[x])
    return '.'.join(parts)


def reference(error_id):
    from pytezos.rpc.node import RpcError
    import pytezos.rpc.errors  # noqa

    h = RpcError.__handlers__
    chunks = error_id.split('.')
    cands = [error_id]
    if chunks[0] == 'proto' and len(chunks) > 2:
        cands.append('.'.join(chunks[2:]))
    if len(chunks) > 1:
        cands.append(chunks[-1])
        cands.append(chunks[-2])
    for c in cands:
        if c in h:
            return h[c]
    return RpcError


def pick(i, n):
    for k in range(n):
        if i == k:
            return k
    assume(False)


def run(form, nerr, p, c, d, n, decoy):
    from pytezos.rpc.node import RpcError
    import pytezos.rpc.errors  # noqa

    toks = tokens()
    eid = build(form, toks, p, c, d, n)
    errors = [{'id': 'proto.alpha.' + toks[decoy] + '.decoy', 'kind': 'temporary'} for _ in range(nerr - 1)]
    last = {'id': eid, 'kind': 'permanent', 'marker': 1}
    errors.append(last)
    e = RpcError.from_errors(errors)
    exp = reference(eid)
    ok = type(e) is exp and (e.args[0] is last)
    return ok, eid, type(e).__name__, exp.__name__


def small():
    """indices of the reduced token universe used for <P> and <D> (a registered category, a registered name, fresh)."""
    toks = tokens()
    return [toks.index('michelson_v1'), toks.index('script_rejected'), toks.index('zzfresh')]


def sym(P, p: int, c: int, d: int, n: int) -> bool:
    nt = len(tokens())
    form = P['form'].split('.')
    sm = small()
    p = sm[pick(p, 3)] if 'P' in form else 0
    c = pick(c, nt) if 'C' in form else 0
    d = sm[pick(d, 3)] if 'D' in form else 0
    n = pick(n, nt)
    return run(P['form'], P['nerr'], p, c, d, n, P['decoy'])[0]


def concrete(P, w):
    form = P['form'].split('.')
    sm = small()
    p = sm[int(w['p'])] if 'P' in form else 0
    c = int(w['c']) if 'C' in form else 0
    d = sm[int(w['d'])] if 'D' in form else 0
    ok, eid, got, exp = run(P['form'], P['nerr'], p, c, d, int(w['n']), P['decoy'])
    return {'ok': ok, 'error_id': eid, 'observed': got, 'expected': exp}


def sym_empty(P, x: int) -> bool:
    from pytezos.rpc.node import RpcError

    e = RpcError.from_errors([])
    return type(e) is RpcError


# ---- classes registered by the harness itself (full identifiers, several protocols) and the from_response entry ----------------
H_TOKENS = ['proto', 'PtHarness', 'PtOther', 'michelson_v1', 'bad_return', 'hcat', 'hname', 'zzfresh', 'script_rejected']
H_KEYS = ['proto.PtHarness.michelson_v1.bad_return', 'proto.PtHarness.hcat.hname', 'hcat.hname', 'hname', 'hcat']


def _with_harness_classes(fn):
    """Registers one subclass per key of H_KEYS through the real __init_subclass__, runs fn(expected_table), unregisters."""
    from pytezos.rpc.node import RpcError
    import pytezos.rpc.errors  # noqa

    before = dict(RpcError.__handlers__)
    expected = dict(before)
    made = []
    try:
        for i, key in enumerate(H_KEYS):
            cls = type(f'Harness{i}', (RpcError,), {}, error_id=key)
            made.append(cls)
            expected[key] = cls
        return fn(expected)
    finally:
        RpcError.__handlers__.clear()
        RpcError.__handlers__.update(before)


def _ref_table(error_id, table, base):
    chunks = error_id.split('.')
    cands = [error_id]
    if chunks[0] == 'proto' and len(chunks) > 2:
        cands.append('.'.join(chunks[2:]))
    if len(chunks) > 1:
        cands.append(chunks[-1])
        cands.append(chunks[-2])
    for c in cands:
        if c in table:
            return table[c]
    return base


def _run_registered(ncomp, idx):
    from pytezos.rpc.node import RpcError

    eid = '.'.join(H_TOKENS[i] for i in idx[:ncomp])

    def body(expected):
        e = RpcError.from_errors([{'id': 'proto.alpha.tez.decoy', 'kind': 'temporary'}, {'id': eid, 'kind': 'permanent'}])
        exp = _ref_table(eid, expected, RpcError)
        return type(e) is exp, eid, type(e).__name__, exp.__name__

    return _with_harness_classes(body)


def sym_registered(P, ex):
    from harness import mbv

    ncomp = mbv._choose(ex, 'ncomp', 1, 4)
    idx = [mbv._choose(ex, f't{i}', 0, len(H_TOKENS) - 1) for i in range(ncomp)]
    ok, eid, got, exp = _run_registered(ncomp, idx + [0] * 4)
    if not ok:
        ex.fail_here(f'{eid} mapped to {got}, expected {exp}')
    ex.check(True)


def conc_registered(P, w):
    ncomp = int(w.get('ncomp', 1))
    idx = [int(w.get(f't{i}', 0)) for i in range(4)]
    ok, eid, got, exp = _run_registered(ncomp, idx)
    return {'ok': ok, 'error_id': eid, 'observed': got, 'expected': exp}


R_IDS = ['proto.alpha.michelson_v1.script_rejected', 'proto.alpha.michelson_v1.runtime_error', 'proto.alpha.michelson_v1.bad_return', 'node.zzfresh.unknown',
         'proto.alpha.contract.balance_too_low']


def _run_response(ids):
    """RpcError.from_response on a JSON error body: the class is decided by the LAST error of the list as sent."""
    from pytezos.rpc.node import RpcError
    import pytezos.rpc.errors  # noqa

    errors = [{'id': R_IDS[i], 'kind': 'permanent', 'pos': k} for k, i in enumerate(ids)]

    class Resp:
        status_code = 500
        headers = {'content-type': 'application/json'}
        text = '<body>'

        def json(self):
            return [dict(e) for e in errors]

    e = RpcError.from_response(Resp())
    exp = reference(errors[-1]['id']) if errors else RpcError
    carried = e.args[0] if e.args else None
    ok = type(e) is exp and (not errors or (isinstance(carried, dict) and carried.get('pos') == len(errors) - 1))
    return ok, [x['id'] for x in errors], type(e).__name__, exp.__name__


STATUSES = [400, 403, 409, 410, 422, 500, 502, 503]


def _run_request(status_i, ids):
    """The whole path: RpcNode.request on an HTTP error status with a JSON error body."""
    from pytezos.rpc import node as N
    import pytezos.rpc.errors  # noqa
    from vf.stubs import const_stub, json_log_stub, patched

    errors = [{'id': R_IDS[i], 'kind': 'permanent', 'pos': k} for k, i in enumerate(ids)]
    status = STATUSES[status_i]

    class Resp:
        status_code = status
        headers = {'content-type': 'application/json'}
        text = '<body>'

        def json(self):
            return [dict(e) for e in errors]

    with patched((N.requests, 'request', lambda method, url, **kw: Resp()), (N, 'sleep', lambda d: None),
                 (N, 'json', json_log_stub(N.json)), (N, 'pformat', const_stub('<pformat>'))):
        try:
            N.RpcNode('http://n').request('GET', 'x')
            return False, status, [x['id'] for x in errors], 'no exception', '-'
        except N.RpcError as e:
            exp = reference(errors[-1]['id'])
            carried = e.args[0] if e.args else None
            ok = type(e) is exp and isinstance(carried, dict) and carried.get('pos') == len(errors) - 1
            return ok, status, [x['id'] for x in errors], type(e).__name__, exp.__name__


def sym_request(P, ex):
    from harness import mbv

    st = mbv._choose(ex, 'status', 0, len(STATUSES) - 1)
    n = mbv._choose(ex, 'n', 1, 2)
    ids = [mbv._choose(ex, f'e{i}', 0, len(R_IDS) - 1) for i in range(n)]
    ok, status, lst, got, exp = _run_request(st, ids)
    if not ok:
        ex.fail_here(f'HTTP {status} with errors {lst} raised {got}, expected {exp} carrying the last error')
    ex.check(True)


def conc_request(P, w):
    n = int(w.get('n', 1))
    ok, status, lst, got, exp = _run_request(int(w.get('status', 0)), [int(w.get(f'e{i}', 0)) for i in range(n)])
    return {'ok': ok, 'status': status, 'errors': lst, 'observed': got, 'expected': exp}


def declared_ids():
    """(identifier, class name) pairs declared in rpc/errors.py: `class X(RpcError, error_id=...)` read from the source."""
    import ast

    import pytezos.rpc.errors as E

    out = []
    for node in ast.parse(open(E.__file__).read()).body:
        if isinstance(node, ast.ClassDef):
            for kw in node.keywords:
                if kw.arg == 'error_id':
                    vals = kw.value.elts if isinstance(kw.value, (ast.List, ast.Tuple, ast.Set)) else [kw.value]
                    for v in vals:
                        if isinstance(v, ast.Constant) and isinstance(v.value, str):
                            out.append((v.value, node.name))
    return out


def _run_declared(i):
    from pytezos.rpc.node import RpcError
    import pytezos.rpc.errors  # noqa

    decl = declared_ids()
    eid, cname = decl[i % len(decl)]
    last = {}
    for k, c in decl:
        last[k] = c          # a later declaration of the same identifier wins
    e = RpcError.from_errors([{'id': 'proto.alpha.' + eid, 'kind': 'permanent'}])
    h = RpcError.__handlers__.get(eid)
    ok = h is not None and h.__name__ == last[eid] and type(e).__name__ == last[eid]
    return ok, eid, type(e).__name__, last[eid]


def sym_declared(P, ex):
    from harness import mbv

    n = len(declared_ids())
    i = mbv._choose(ex, 'i', 0, n - 1)
    ok, eid, got, exp = _run_declared(i)
    if not ok:
        ex.fail_here(f'identifier {eid} declared for {exp} maps to {got}')
    ex.check(True)


def conc_declared(P, w):
    ok, eid, got, exp = _run_declared(int(w.get('i', 0)))
    return {'ok': ok, 'error_id': eid, 'observed': got, 'expected': exp}


def sym_response(P, ex):
    from harness import mbv

    n = mbv._choose(ex, 'n', 1, P['max'])
    ids = [mbv._choose(ex, f'e{i}', 0, len(R_IDS) - 1) for i in range(n)]
    ok, lst, got, exp = _run_response(ids)
    if not ok:
        ex.fail_here(f'errors {lst} mapped to {got}, expected {exp} carrying the last error')
    ex.check(True)


def conc_response(P, w):
    n = int(w.get('n', 1))
    ok, lst, got, exp = _run_response([int(w.get(f'e{i}', 0)) for i in range(n)])
    return {'ok': ok, 'errors': lst, 'observed': got, 'expected': exp}


def obligations(tier):
    obs = []
    obs.append(Ob(name='registered-by-harness/full-and-short-ids', engine='bvx', sym=sym_registered, concrete=conc_registered, P={}, timeout=300,
                  bounds='classes registered on a full identifier, on category.name, on a name and on a category; looked-up identifiers of 1..4 components, each component chosen by the '
                         f'solver among {len(H_TOKENS)} tokens (two protocols)', targets=TARGETS + ['pytezos.rpc.node.RpcError.__init_subclass__'], opts={'W': 16}))
    obs.append(Ob(name='from_response/error-lists', engine='bvx', sym=sym_response, concrete=conc_response, P={'max': 3 if tier == 'quick' else 4}, timeout=300,
                  bounds=f'JSON error bodies of 1..{3 if tier == "quick" else 4} errors, each identifier chosen by the solver among {len(R_IDS)} (repetitions included)',
                  targets=TARGETS + ['pytezos.rpc.node.RpcError.from_response'], opts={'W': 16}))
    obs.append(Ob(name='declared-ids-are-registered', engine='bvx', sym=sym_declared, concrete=conc_declared, P={}, timeout=120,
                  bounds='every identifier declared with error_id= in rpc/errors.py (read from the source), looked up with a proto.<protocol>. prefix',
                  targets=TARGETS + ['pytezos.rpc.node.RpcError.__init_subclass__', 'pytezos.rpc.errors (declarations)'], opts={'W': 16}))
    obs.append(Ob(name='through-RpcNode.request/error-statuses', engine='bvx', sym=sym_request, concrete=conc_request, P={}, timeout=300,
                  bounds=f'HTTP status chosen by the solver among {STATUSES} (401/404 are generic by design), JSON bodies of 1..2 errors over {len(R_IDS)} identifiers',
                  targets=TARGETS + ['pytezos.rpc.node.RpcNode.request', 'pytezos.rpc.node.RpcError.from_response'], opts={'W': 16}))
    for form in FORMS:
        if form == 'P.C.N' and tier == 'quick':
            continue
        toks = tokens()
        for nerr, decoy in ((1, 0), (2, toks.index('tez')), (3, toks.index('script_rejected'))):
            obs.append(Ob(name=f'map/{form}/errors={nerr}', engine='xh', sym=sym, concrete=concrete,
                          P={'form': form, 'nerr': nerr, 'decoy': decoy},
                          timeout=120 if tier == 'quick' else 600,
                          bounds=f'identifier form {form}; <C>,<N> symbolic over {len(toks)} tokens, <P>,<D> over 3 tokens; '
                                 f'{nerr} error(s), earlier ones are decoys of another registered category',
                          targets=TARGETS))
    obs.append(Ob(name='map/empty-list', engine='xh', sym=sym_empty,
                  concrete=lambda P, w: {'ok': sym_empty(P, 0)}, timeout=20, bounds='empty error list -> generic RpcError',
                  targets=TARGETS))
    return obs
