"""C28 Multi-node clients rotate through nodes regardless of failures."""
from unittest import mock

from vf.core import Ob
from vf.xh import assume

TARGETS = ['pytezos.rpc.node.RpcMultiNode.request', 'pytezos.rpc.node.RpcMultiNode.__init__', 'pytezos.rpc.node.RpcNode.request']
STUBS = ['requests.request -> fake response (status 200 | 404) recording the URL', 'pytezos.rpc.node.sleep -> no-op']
BOUNDS = {'quick': 'nodes 1..4 (symbolic), 6 requests, every outcome vector symbolic',
          'thorough': 'nodes 1..4 (symbolic), 9 requests, every outcome vector symbolic'}
OUTSIDE = ['more than 4 nodes / longer request sequences', 'HTTP transport itself']
ASSUMPTIONS = ['a failing request is one for which RpcNode.request raises RpcError (HTTP 404)']


class _Resp:
    def __init__(self, ok):
        self.status_code = 200 if ok else 404
        self.text = ''
        self.headers = {'content-type': 'application/json'}

    def json(self):
        return {}


def _drive(n, outcomes):
    from pytezos.rpc import node as N

    uris = [f'http://node{i}' for i in range(n)]
    hits = []
    it = iter(outcomes)

    def fake_request(method, url, **kw):
        hits.append(int(url[len('http://node'):].split('/')[0]))
        return _Resp(next(it))

    saved = N.requests.request, N.sleep
    N.requests.request, N.sleep = fake_request, (lambda d: None)
    try:
        mn = N.RpcMultiNode(uris)
        for _ in outcomes:
            try:
                mn.request('GET', 'chains/main/blocks/head')
            except N.RpcError:
                pass
    finally:
        N.requests.request, N.sleep = saved
    return hits


def _mk(k):
    import inspect

    def sym(P, n: int, *outs):
        assume(1 <= n <= 4)
        hits = _drive(n, list(outs))
        return hits == [i % n for i in range(len(outs))]

    # explicit signature with k bool parameters
    params = ', '.join(f'o{i}: bool' for i in range(k))
    ns = {'assume': assume, '_drive': _drive}
    exec(f'def sym(P, n: int, {params}) -> bool:\n'
         f'    assume(1 <= n <= 4)\n'
         f'    outs = [{", ".join("o%d" % i for i in range(k))}]\n'
         f'    hits = _drive(n, outs)\n'
         f'    return hits == [i % n for i in range(len(outs))]\n', ns)
    return ns['sym']


def concrete(P, w):
    k = P['k']
    outs = [bool(w[f'o{i}']) for i in range(k)]
    hits = _drive(int(w['n']), outs)
    exp = [i % int(w['n']) for i in range(k)]
    return {'ok': hits == exp, 'observed': hits, 'expected': exp}


def obligations(tier):
    k = 6 if tier == 'quick' else 9
    return [Ob(name=f'rotation/k{k}', engine='xh', sym=_mk(k), concrete=concrete, P={'k': k},
               timeout=60 if tier == 'quick' else 300, bounds=f'n in 1..4 symbolic, {k} requests, outcomes symbolic',
               targets=TARGETS, stubs=STUBS)]
