"""Independent reference for the Tezos operation binary format (manager operations and the few others the
property lists), written from the protocol's operation encoding.  Works on plain values and on bvx proxies.

Every field that is a base58 string in pytezos' JSON is given to the reference already decoded:
  pkh = (curve_tag, payload20)   contract = ('implicit', curve_tag, payload20) | ('originated', payload20) | ('rollup', payload20)
  public key = (curve_tag, payload)   hashes = raw payload items
"""
from __future__ import annotations

from ref import michbin

TAGS = {'activate_account': 4, 'failing_noop': 17, 'reveal': 107, 'transaction': 108, 'origination': 109, 'delegation': 110,
        'register_global_constant': 111, 'transfer_ticket': 158, 'smart_rollup_add_messages': 201, 'smart_rollup_execute_outbox_message': 206}
ENTRYPOINT_TAGS = {'default': 0, 'root': 1, 'do': 2, 'set_delegate': 3, 'remove_delegate': 4, 'deposit': 5, 'stake': 6, 'unstake': 7,
                   'finalize_unstake': 8, 'set_delegate_parameters': 9}


def u32(n):
    return [(n >> 24) & 0xFF, (n >> 16) & 0xFF, (n >> 8) & 0xFF, n & 0xFF]


def dyn(items):
    return u32(len(items)) + list(items)


def pkh(x):
    tag, payload = x
    return [tag] + list(payload)


def contract(x):
    if x[0] == 'implicit':
        return [0] + pkh((x[1], x[2]))
    if x[0] == 'originated':
        return [1] + list(x[1]) + [0]
    if x[0] == 'rollup':
        return [3] + list(x[1]) + [0]
    raise ValueError(x)


def entrypoint(name):
    if name in ENTRYPOINT_TAGS:
        return [ENTRYPOINT_TAGS[name]]
    raw = list(name.encode())
    if len(raw) > 31:
        raise ValueError('entrypoint name longer than 31 bytes')
    return [255, len(raw)] + raw


def manager_header(kind, c):
    return [TAGS[kind]] + pkh(c['source']) + michbin.enc_n(c['fee']) + michbin.enc_n(c['counter']) + michbin.enc_n(c['gas_limit']) + michbin.enc_n(c['storage_limit'])


def content(c):
    k = c['kind']
    if k == 'activate_account':
        return [TAGS[k]] + list(c['pkh']) + list(c['secret'])
    if k == 'failing_noop':
        return [TAGS[k]] + dyn(list(c['arbitrary']))
    out = manager_header(k, c)
    if k == 'reveal':
        tag, payload = c['public_key']
        out += [tag] + list(payload)
        out += ([255] + dyn(list(c['proof']))) if c.get('proof') is not None else [0]
    elif k == 'transaction':
        out += michbin.enc_n(c['amount']) + contract(c['destination'])
        p = c.get('parameters')
        if p is None or (p['entrypoint'] == 'default' and p['value'] == {'prim': 'Unit'}):
            out += [0]
        else:
            out += [255] + entrypoint(p['entrypoint']) + dyn(michbin.encode_items(p['value']))
    elif k == 'origination':
        out += michbin.enc_n(c['balance'])
        out += ([255] + pkh(c['delegate'])) if c.get('delegate') is not None else [0]
        out += dyn(michbin.encode_items(c['script']['code'])) + dyn(michbin.encode_items(c['script']['storage']))
    elif k == 'delegation':
        out += ([255] + pkh(c['delegate'])) if c.get('delegate') is not None else [0]
    elif k == 'register_global_constant':
        out += dyn(michbin.encode_items(c['value']))
    elif k == 'transfer_ticket':
        out += dyn(michbin.encode_items(c['ticket_contents'])) + dyn(michbin.encode_items(c['ticket_ty'])) + contract(c['ticket_ticketer'])
        out += michbin.enc_n(c['ticket_amount']) + contract(c['destination']) + dyn(list(c['entrypoint'].encode()))
    elif k == 'smart_rollup_add_messages':
        body = []
        for m in c['message']:
            body += dyn(list(m))
        out += dyn(body)
    elif k == 'smart_rollup_execute_outbox_message':
        out += list(c['rollup']) + list(c['cemented_commitment']) + dyn(list(c['output_proof']))
    else:
        raise ValueError(k)
    return out


def group(branch, contents):
    out = list(branch)
    for c in contents:
        out += content(c)
    return out
