"""C24 Automatically chosen fees meet the node's default minimal fee."""
import contextlib

from harness import opnode
from vf.core import Ob

TARGETS = ['pytezos.operation.fees.calculate_fee', 'pytezos.operation.fees.default_fee', 'pytezos.operation.fees.default_gas_limit', 'pytezos.operation.fees.default_storage_limit',
           'pytezos.operation.group.OperationGroup.fill', 'pytezos.operation.group.OperationGroup.autofill', 'pytezos.operation.result.OperationResult.consumed_gas/paid_storage_size_diff/burned/is_applied',
           'pytezos.operation.content.ContentMixin (builders)', 'pytezos.context.impl.ExecutionContext.get_counter/get_counter_offset']
STUBS = ['shell (RPC) -> harness/opnode.Node: constants, account counter and run_operation results are symbolic',
         'forge_operation inside fees.py -> object whose length is  real_forged_size(content with zeroed numeric fields) + pad + sum(zarith_len(field) - 1 for fee/counter/gas_limit/storage_limit)  '
         '(justified by the size-model obligations, which run the real forge_operation on symbolic numeric fields); len() in fees.py accepts that object',
         'key -> fixed identity per curve; signature length 64 bytes (tz1-tz3) / 96 bytes (tz4) enters the node rule',
         'logger.debug -> no-op']
BOUNDS = {'quick': 'batches of 1..5 manager operations over 9 content templates (reveal, delegation, origination, transaction to implicit / to KT1 with padded parameters, register_global_constant, '
                   'transfer_ticket, smart_rollup_add_messages, smart_rollup_execute_outbox_message): all singles, 5 mixed batches, uniform batches of 8, 14, 20, 27 transactions; tz1 and tz4 sources; all numeric quantities are mathematical integers: '
                   'account counter < 2^62, node hard limits 1..2^40, simulated milligas < 2^50 (plus one internal result), paid storage diff < 2^40, gas_reserve/burn_reserve < 2^20, parameter padding < 2^24 bytes; '
                   'fill() with default limits and with caller-given limits; autofill() with simulated and with caller-given limits',
          'thorough': 'all ordered pairs of templates, 4 source kinds, uniform batches of every size 6..40 and 50, 64, 100'}
OUTSIDE = ['an explicit fee / minimal_nanotez_per_gas_unit passed by the caller (the fee is then not chosen by the client)', 'float rounding of int(100*g/1000) for gas beyond 2^48',
           'non-manager operation kinds (they carry no fee)']
ASSUMPTIONS = ['node rule (Octez prevalidator defaults): 1000*total_fee >= 100000 + 1000*len(signed operation bytes) + 100*sum(gas_limit)',
               'signed size = 32 (branch) + sum(content sizes) + signature length; the content that carries the fee grows by zarith_len(fee) - 1 bytes relative to the size priced',
               'int(a*g/1000) is evaluated exactly (rationals); the float lemma obligations show the float evaluation agrees (rounding contract: g < 2^48; bit-precise binary64: g < 2^24, thorough tier)']

KT = 'KT1BEqzn5Wx8uJrZNvuS9DVHmLvG9td3fDLi'
TZ = 'tz1VSUr8wwNhLAzempoch5d6hLRiTh8Cjcjb'
SR = 'sr1AE6U3GNzE8iKzj6sKS5wh1U32ogeULCoN'
SRC = 'src12UJzB8mg7yU6nWPzicH7ofJbFjyJEbHvwtZdfRXi8DQHNp1LY8'
NUMERIC = ('fee', 'counter', 'gas_limit', 'storage_limit')
TEMPLATES = ('reveal', 'delegation', 'origination', 'tx', 'txkt', 'constant', 'ticket', 'sr_add', 'sr_exec')
PADDABLE = ('txkt',)


def add_content(opg, t, pad=0):
    if t == 'reveal':
        return opg.reveal()
    if t == 'delegation':
        return opg.delegation()
    if t == 'origination':
        return opg.origination({'code': [{'prim': 'parameter', 'args': [{'prim': 'unit'}]}, {'prim': 'storage', 'args': [{'prim': 'unit'}]},
                                         {'prim': 'code', 'args': [[{'prim': 'CDR'}, {'prim': 'NIL', 'args': [{'prim': 'operation'}]}, {'prim': 'PAIR'}]]}],
                                'storage': {'prim': 'Unit'}})
    if t == 'tx':
        return opg.transaction(TZ, amount=1)
    if t == 'txkt':
        return opg.transaction(KT, amount=0, parameters={'entrypoint': 'default', 'value': {'bytes': '00' * pad}})
    if t == 'constant':
        return opg.register_global_constant({'prim': 'Unit'})
    if t == 'ticket':
        return opg.transfer_ticket({'string': 'x'}, {'prim': 'string'}, KT, 1, KT)
    if t == 'sr_add':
        return opg.smart_rollup_add_messages([b'\x01\x02'])
    if t == 'sr_exec':
        return opg.smart_rollup_execute_outbox_message(SR, SRC, b'\x00' * 8)
    raise KeyError(t)


def zlen(v):
    """Number of bytes of the Zarith (7 bits per byte) encoding of a natural < 2^70."""
    import z3

    from vf import bvx

    if isinstance(v, bvx.IntZ):
        return bvx.IntZ(z3.IntVal(1) + z3.Sum([z3.If(v.e >= (1 << (7 * k)), 1, 0) for k in range(1, 10)]))
    n = 1
    while v >= 128:
        v >>= 7
        n += 1
    return n


class _Sized:
    def __init__(self, n):
        self.n = n


def _len(x):
    return x.n if isinstance(x, _Sized) else len(x)


def node_rule_ok(fee_total, size, gas_total):
    return 1000 * fee_total >= 100000 + 1000 * size + 100 * gas_total


def _sim(ex, kinds, P):
    """run_operation stand-in: every content applied, symbolic consumption."""
    from vf import bvx

    def simulate(payload):
        out = []
        for i, c in enumerate(payload['operation']['contents']):
            c = dict(c)
            mg = ex.int(f'milligas{i}')
            ps = ex.int(f'paid_storage{i}')
            ex.assume((mg >= 0) & (mg < (1 << 50)) & (ps >= 0) & (ps < (1 << 40)))
            res = {'status': 'applied', 'consumed_milligas': bvx.DecStr(mg), 'paid_storage_size_diff': bvx.DecStr(ps)}
            if P.get('alloc') and i == 0:
                res['allocated_destination_contract'] = True
            meta = {'operation_result': res}
            if P.get('internal') and i == 0:
                mgi = ex.int(f'internal_milligas{i}')
                ex.assume((mgi >= 0) & (mgi < (1 << 50)))
                meta['internal_operation_results'] = [{'kind': 'transaction', 'result': {'status': 'applied', 'consumed_milligas': bvx.DecStr(mgi)}}]
            c['metadata'] = meta
            out.append(c)
        return {'contents': out}

    return simulate


@contextlib.contextmanager
def _env(pads):
    import pytezos.context.impl as CI
    import pytezos.operation.fees as F
    import pytezos.operation.group as G
    import pytezos.operation.result as R

    from vf import bvx

    def forge_operation(content):
        n = _base_size(content) + pads[content['_i']]
        for f in NUMERIC:
            n = n + zlen(bvx._Int(content[f])) - 1
        return _Sized(n)

    class _Log:
        def __getattr__(self, name):
            return lambda *a, **kw: None

    saved = (F.forge_operation, G.logger, CI.logger)
    F.forge_operation = forge_operation
    F.len = _len
    G.logger = CI.logger = _Log()
    try:
        with bvx.shadowed(G, F, R, CI):
            yield
    finally:
        F.forge_operation, G.logger, CI.logger = saved
        del F.len


def _base_size(content):
    """Real forged size of the content as it is, numeric fields zeroed."""
    c = dict(content)
    for f in NUMERIC:
        c[f] = '0'
    from pytezos.operation.forge import forge_operation

    return len(forge_operation(c))


def _build(kinds, keykind, node, pads):
    from pytezos.operation.group import OperationGroup

    k = opnode.FakeKey(keykind)
    ctx = opnode.context(node, k)
    opg = OperationGroup(context=ctx)
    for i, t in enumerate(kinds):
        opg = add_content(opg, t, pads[i] if not hasattr(pads[i], 'e') else 0)
    for i, c in enumerate(opg.contents):
        c['_i'] = i
    return opg, k


def sym_fee(P, ex):
    from vf import bvx

    kinds, keykind, mode = P['kinds'], P['key'], P['mode']
    n = len(kinds)
    counter = ex.int('counter')
    hard_gas, hard_storage = ex.int('hard_gas_limit_per_operation'), ex.int('hard_storage_limit_per_operation')
    ex.assume((counter >= 0) & (counter < (1 << 62)) & (hard_gas >= 1) & (hard_gas < (1 << 40)) & (hard_storage >= 0) & (hard_storage < (1 << 40)))
    if P.get('constants') == 'default':
        hard_gas, hard_storage = 1040000, 60000
    pads = []
    for i, t in enumerate(kinds):
        if t in PADDABLE:
            p = ex.int(f'pad{i}')
            ex.assume((p >= 0) & (p < (1 << 24)))
            pads.append(p)
        else:
            pads.append(0)
    node = opnode.Node(opnode.key(keykind).public_key_hash(), counter,
                       constants={'hard_gas_limit_per_operation': opnode.Node._str(hard_gas), 'hard_storage_limit_per_operation': opnode.Node._str(hard_storage)})
    node.simulate = _sim(ex, kinds, P)
    opg, k = _build(kinds, keykind, node, pads)
    kw = {}
    if P['limits'] == 'given':
        g, s = ex.int('gas_limit_arg'), ex.int('storage_limit_arg')
        ex.assume((g >= 0) & (g < (1 << 40)) & (s >= 0) & (s < (1 << 40)))
        kw = {'gas_limit': g, 'storage_limit': s}
    if mode == 'autofill' and P.get('reserves') == 'sym':
        gr, br = ex.int('gas_reserve'), ex.int('burn_reserve')
        ex.assume((gr >= 0) & (gr < (1 << 20)) & (br >= 0) & (br < (1 << 20)))
        kw.update(gas_reserve=gr, burn_reserve=br)
    with _env(pads):
        out = opg.fill(**kw) if mode == 'fill' else opg.autofill(**kw)
        fee = gas = size = 0
        for i, c in enumerate(out.contents):
            fee = fee + bvx._Int(c['fee'])
            gas = gas + bvx._Int(c['gas_limit'])
            sz = _base_size(c) + pads[i]
            for f in NUMERIC:
                v = bvx._Int(c[f])
                if isinstance(v, bvx.IntZ):
                    ex.assume(v >= 0)
                sz = sz + zlen(v) - 1
            size = size + sz
    size = size + 32 + opnode.SIGLEN[keykind]
    ex.check(node_rule_ok(fee, size, gas), 'total fee meets the node default minimum for the signed operation')


def conc_fee(P, w):
    """Replay on the real code: real forging, a real key, a concrete node."""
    from pytezos.crypto.encoding import base58_encode
    from pytezos.operation.group import OperationGroup

    kinds, keykind, mode = P['kinds'], P['key'], P['mode']
    n = len(kinds)
    pads = [int(w.get(f'pad{i}', 0)) for i in range(n)]
    if P.get('constants') == 'default':
        hg, hs = 1040000, 60000
    else:
        hg, hs = int(w.get('hard_gas_limit_per_operation', 1)), int(w.get('hard_storage_limit_per_operation', 0))
    k = opnode.key(keykind)
    node = opnode.Node(k.public_key_hash(), int(w.get('counter', 0)), constants={'hard_gas_limit_per_operation': str(hg), 'hard_storage_limit_per_operation': str(hs)})

    def simulate(payload):
        out = []
        for i, c in enumerate(payload['operation']['contents']):
            c = dict(c)
            res = {'status': 'applied', 'consumed_milligas': str(int(w.get(f'milligas{i}', 0))), 'paid_storage_size_diff': str(int(w.get(f'paid_storage{i}', 0)))}
            if P.get('alloc') and i == 0:
                res['allocated_destination_contract'] = True
            meta = {'operation_result': res}
            if P.get('internal') and i == 0:
                meta['internal_operation_results'] = [{'kind': 'transaction', 'result': {'status': 'applied', 'consumed_milligas': str(int(w.get(f'internal_milligas{i}', 0)))}}]
            c['metadata'] = meta
            out.append(c)
        return {'contents': out}

    node.simulate = simulate
    opg = OperationGroup(context=opnode.context(node, k))
    for i, t in enumerate(kinds):
        opg = add_content(opg, t, pads[i])
    kw = {}
    if P['limits'] == 'given':
        kw = {'gas_limit': int(w.get('gas_limit_arg', 0)), 'storage_limit': int(w.get('storage_limit_arg', 0))}
    if mode == 'autofill' and P.get('reserves') == 'sym':
        kw.update(gas_reserve=int(w.get('gas_reserve', 0)), burn_reserve=int(w.get('burn_reserve', 0)))
    out = opg.fill(**kw) if mode == 'fill' else opg.autofill(**kw)
    try:
        signed = out.sign()
        note = 'signed with the real key'
    except Exception as e:  # signing is C23's subject: fall back to a signature of the right length
        sig = base58_encode(b'\x00' * opnode.SIGLEN[keykind], b'BLsig' if keykind == 'tz4' else b'sig').decode()
        signed = out._spawn(signature=sig)
        note = f'sign() failed ({type(e).__name__}); size taken with a zero signature of the curve length'
    size = len(signed.binary_payload())
    fee = sum(int(c.get('fee', 0)) for c in out.contents)
    gas = sum(int(c.get('gas_limit', 0)) for c in out.contents)
    need = -(-(100000 + 1000 * size + 100 * gas) // 1000)
    return {'ok': fee >= need, 'fee_total': fee, 'node_minimum': need, 'signed_size': size, 'gas_limit_total': gas, 'note': note,
            'fees': [c.get('fee') for c in out.contents], 'gas_limits': [c.get('gas_limit') for c in out.contents]}


# --- size model -----------------------------------------------------------------------------------------------------
def sym_size_model(P, ex):
    """len(real forge_operation(content)) == base + pad + sum(zarith_len(field) - 1) with symbolic numeric fields."""
    from harness import mbv
    from vf import bvx

    t, field = P['template'], P['field']
    node = opnode.Node(opnode.key('tz1').public_key_hash(), 0)
    opg, _ = _build((t,), 'tz1', node, [3])
    content = opg.fill().contents[0]
    base = _base_size(content)
    vals = {}
    for f in NUMERIC:
        v = ex.bv('num:' + f)
        ex.assume((v >= 0) & (v < ((1 << (ex.W - 2)) if f == field else (1 << 7))))
        vals[f] = v
        content[f] = bvx.DecStr(v)
    fm = mbv.forge_module()
    import pytezos.operation.forge as OF

    saved = {n: getattr(OF, n) for n in ('forge_nat',)}
    OF.forge_nat = fm.forge_nat
    try:
        with bvx.shadowed(OF):
            data = OF.forge_operation(content)
    finally:
        for n, v in saved.items():
            setattr(OF, n, v)
    want = base
    wide = vals[field]
    k = 1
    for j in range(1, 10):
        if (7 * j) < ex.W - 2:
            k = k + bvx._Int(wide >= (1 << (7 * j)))
    ex.check(len(data) + 0 == want + k - 1, 'forged length = base + zarith_len(field) - 1')


def conc_size_model(P, w):
    t, field = P['template'], P['field']
    node = opnode.Node(opnode.key('tz1').public_key_hash(), 0)
    opg, _ = _build((t,), 'tz1', node, [3])
    content = opg.fill().contents[0]
    base = _base_size(content)
    from pytezos.operation.forge import forge_operation

    extra = 0
    for f in NUMERIC:
        v = int(w.get('num:' + f, 0))
        content[f] = str(v)
        extra += zlen(v) - 1
    got = len(forge_operation(content))
    return {'ok': got == base + extra, 'forged_length': got, 'model': base + extra}


# --- float lemma ------------------------------------------------------------------------------------------------------
def sym_float(P, ctx):
    """int(100 * g / 1000) evaluated in binary64 (Python: correctly rounded int/int division, truncation) equals floor(g/10)."""
    import z3

    bits = P['bits']
    if P['encoding'] == 'contract':
        # IEEE-754 contract of the correctly rounded division: the result r is within relative error 2^-53 of the exact quotient
        g, r = z3.Int('g'), z3.Real('r')
        exact10 = z3.ToReal(g)                      # 10 * (100 g / 1000)
        err = exact10 / z3.RealVal(2 ** 53)
        # ... and an exactly representable quotient (an integer below 2^53) is returned exactly
        near = z3.And(10 * r - exact10 <= err, exact10 - 10 * r <= err, z3.Implies(g % 10 == 0, 10 * r == exact10))
        fl = g / 10                                   # z3 Int division: floor for a positive divisor
        ctx.unsat('any real within 2^-53 relative error of 100g/1000 truncates to g // 10',
                  z3.And(g >= 0, g < (1 << bits), near, z3.Not(z3.And(z3.ToReal(fl) <= r, r < z3.ToReal(fl) + 1))), {'g': g},
                  validate=lambda w: int(100 * w['g'] / 1000) != w['g'] // 10)
        return
    g = z3.BitVec('g', 64)
    rm = z3.RNE()
    num = z3.fpSignedToFP(rm, g * 100, z3.Float64())
    q = z3.fpDiv(rm, num, z3.FPVal(1000.0, z3.Float64()))
    t = z3.fpToSBV(z3.RTZ(), q, z3.BitVecSort(64))
    ctx.unsat('float evaluation of int(100*g/1000) == g // 10', z3.And(z3.ULT(g, z3.BitVecVal(1 << bits, 64)), t != z3.UDiv(g, z3.BitVecVal(10, 64))), {'g': g},
              validate=lambda w: int(100 * w['g'] / 1000) != w['g'] // 10)


def conc_float(P, w):
    g = int(w['g'])
    return {'ok': int(100 * g / 1000) == g // 10, 'g': g, 'float': int(100 * g / 1000), 'exact': g // 10}


def obligations(tier):
    q = tier == 'quick'
    obs = []
    keys = ('tz1', 'tz4') if q else ('tz1', 'tz2', 'tz3', 'tz4')
    groups = [(t,) for t in TEMPLATES]
    if q:
        groups += [('reveal', 'tx'), ('tx', 'txkt'), ('origination', 'delegation'), ('reveal', 'txkt', 'sr_add'), ('tx', 'tx', 'tx', 'tx', 'tx')]
    else:
        groups += [(a, b) for a in TEMPLATES for b in TEMPLATES]
        groups += [('reveal', 'txkt', 'sr_add'), ('tx',) * 5, ('reveal', 'origination', 'txkt', 'ticket', 'constant', 'sr_exec')]
    for kinds in groups:
        for key in keys:
            for mode in ('fill', 'autofill'):
                variants = [('default', {}), ('given', {})]
                if mode == 'autofill':
                    variants = [('default', {'reserves': 'sym', 'internal': True}), ('default', {'alloc': True}), ('given', {})]
                for limits, extra in variants:
                    for constants in (('default', 'any') if mode == 'fill' and limits == 'default' else ('any',)):
                        P = {'kinds': list(kinds), 'key': key, 'mode': mode, 'limits': limits, 'constants': constants, **extra}
                        tag = '+'.join(kinds) if len(set(kinds)) > 1 or len(kinds) == 1 else f'{kinds[0]}x{len(kinds)}'
                        name = f'{mode}/{tag}/{key}/limits={limits}' + (f'/constants={constants}' if mode == 'fill' and limits == 'default' else '') + \
                            ''.join(f'/{k}' for k in extra)
                        obs.append(Ob(name, 'bvx', sym_fee, conc_fee, P, timeout=120 if q else 1200, targets=TARGETS, stubs=STUBS,
                                      bounds=f'{mode}() of a batch {list(kinds)} from a {key} account; counter, node constants, simulated consumption, padding symbolic (integers)'))
    # large batches: one path each (concrete default constants), n sweeps the batch size
    sizes = (8, 14, 20, 27) if q else tuple(range(6, 41)) + (50, 64, 100)
    for n in sizes:
        for key in (('tz1',) if q else ('tz1', 'tz4')):
            for t in (('tx',) if q else ('tx', 'txkt')):
                for mode in ('fill', 'autofill'):
                    P = {'kinds': [t] * n, 'key': key, 'mode': mode, 'limits': 'default', 'constants': 'default'}
                    obs.append(Ob(f'{mode}/{t}x{n}/{key}/limits=default/constants=default', 'bvx', sym_fee, conc_fee, P, timeout=300 if q else 3000, targets=TARGETS, stubs=STUBS,
                                  bounds=f'{mode}() of a batch of {n} {t} contents from a {key} account; counter, simulated consumption per content, padding symbolic; node constants = defaults'))
    for t in TEMPLATES:
        for f in NUMERIC:
            obs.append(Ob(f'size-model/{t}/{f}', 'bvx', sym_size_model, conc_size_model, {'template': t, 'field': f}, timeout=120, opts={'W': 66},
                          targets=['pytezos.operation.forge.forge_operation', 'pytezos.michelson.forge.forge_nat'], lemma=True,
                          bounds=f'{f} < 2^64 symbolic, the other numeric fields < 2^7'))
    obs.append(Ob('float-lemma/int(100*g/1000)/rounding-contract', 'smt', sym_float, conc_float, {'bits': 48, 'encoding': 'contract'}, timeout=120, lemma=True,
                  targets=['pytezos.operation.fees.calculate_fee (float expression)'], stubs=['int/int true division -> any real within relative error 2^-53 of the exact quotient, exact when the quotient is an integer < 2^53 (IEEE-754 round-to-nearest)'],
                  bounds='g < 2^48 (linear real/integer arithmetic)'))
    if not q:
        obs.append(Ob('float-lemma/int(100*g/1000)/binary64', 'smt', sym_float, conc_float, {'bits': 24, 'encoding': 'bvfp'}, timeout=3000, lemma=True,
                      targets=['pytezos.operation.fees.calculate_fee (float expression)'], bounds='g < 2^24 (QF_BVFP, bit-precise binary64 division)'))
    return obs
