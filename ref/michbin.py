"""Independent reference for the Tezos Micheline binary encoding (written from the Octez
`Micheline_encoding` / data-encoding `Z` and `N` definitions, not from pytezos).

Works both on plain Python values and on the bvx proxies: only `& | >> << + - < == !=`, `abs`,
truthiness and list building are used on numbers, so executing it under the bvx explorer yields a
symbolic reference on the same path as the implementation.

Tree representation = Micheline JSON as pytezos uses it:
  {'int': <dec str | bvx.DecStr>}, {'string': <str | SymStr>}, {'bytes': <hex str | SymHex>},
  {'prim': name | Prim(tag), 'args': [...], 'annots': [...]}, [ ... ]
"""
from __future__ import annotations

from ref.prims import PRIMS

N_PRIMS = len(PRIMS)          # protocol primitives: tags 0 .. N_PRIMS-1
PRIM_TAG = {p: i for i, p in enumerate(PRIMS)}


class Reject(Exception):
    """The byte string is not a valid Tezos binary Micheline expression."""


class Prim:
    """A primitive given by its (possibly symbolic) tag."""

    def __init__(self, tag):
        self.tag = tag

    def __eq__(self, o):
        if isinstance(o, Prim):
            return self.tag == o.tag
        return False

    __hash__ = None  # type: ignore


def _mk_bytes(items):
    try:
        from vf import bvx
    except Exception:  # pragma: no cover
        bvx = None
    if bvx is not None and any(isinstance(i, bvx.SymInt) for i in items):
        return bvx.SymBytes(items)
    return bytes(items)


def _items(b):
    try:
        from vf import bvx

        if isinstance(b, bvx.SymBytes):
            return list(b.items)
    except Exception:  # pragma: no cover
        pass
    return list(b)


# ---- integers ---------------------------------------------------------------------------------
def enc_z(v):
    """Signed Zarith: first byte = cont(0x80) | sign(0x40) | 6 low bits, then 7-bit groups, little endian."""
    neg = v < 0
    a = abs(v)
    first = a & 0x3F
    a = a >> 6
    if neg:
        first = first | 0x40
    out = []
    cur = first
    while a != 0:
        out.append(cur | 0x80)
        cur = a & 0x7F
        a = a >> 7
    out.append(cur)
    return out


def enc_n(v):
    """Unsigned Zarith (LEB128-like): 7-bit groups, little endian, continuation bit 0x80."""
    if v < 0:
        raise ValueError('negative')
    out = []
    cur = v & 0x7F
    v = v >> 7
    while v != 0:
        out.append(cur | 0x80)
        cur = v & 0x7F
        v = v >> 7
    out.append(cur)
    return out


def dec_z(items, pos):
    """-> (value, new pos).  Rejects truncated data and non-minimal encodings (trailing zero group).
    The single byte 0x40 ("negative zero") is read as 0, as data-encoding does."""
    if pos >= len(items):
        raise Reject('truncated int')
    b = items[pos]
    pos += 1
    neg = (b & 0x40) != 0
    val = b & 0x3F
    shift = 6
    more = (b & 0x80) != 0
    last = b
    n = 1
    while more:
        if pos >= len(items):
            raise Reject('truncated int')
        b = items[pos]
        pos += 1
        val = val | ((b & 0x7F) << shift)
        shift += 7
        more = (b & 0x80) != 0
        last = b
        n += 1
    if n > 1 and last == 0:
        raise Reject('non-minimal int (trailing zero group)')
    if neg:
        val = -val
    return val, pos


def dec_n(items, pos):
    if pos >= len(items):
        raise Reject('truncated nat')
    val = 0
    shift = 0
    n = 0
    while True:
        if pos >= len(items):
            raise Reject('truncated nat')
        b = items[pos]
        pos += 1
        val = val | ((b & 0x7F) << shift)
        shift += 7
        n += 1
        if (b & 0x80) == 0:
            if n > 1 and b == 0:
                raise Reject('non-minimal nat')
            return val, pos


# ---- helpers ----------------------------------------------------------------------------------
def _u32(n):
    return [(n >> 24) & 0xFF, (n >> 16) & 0xFF, (n >> 8) & 0xFF, n & 0xFF]


def _read_u32(items, pos):
    if pos + 4 > len(items):
        raise Reject('truncated length')
    n = (items[pos] << 24) | (items[pos + 1] << 16) | (items[pos + 2] << 8) | items[pos + 3]
    return n, pos + 4


def _text_items(s):
    """ASCII text -> list of byte items."""
    try:
        from vf import bvx

        if isinstance(s, bvx.SymStr):
            return list(s.b.items)
    except Exception:  # pragma: no cover
        pass
    return list(s.encode())


def _hex_items(h):
    try:
        from vf import bvx

        if isinstance(h, bvx.SymHex):
            return list(h.b.items)
    except Exception:  # pragma: no cover
        pass
    return list(bytes.fromhex(h))


def _int_value(d):
    try:
        from vf import bvx

        if isinstance(d, bvx.DecStr):
            return d.v
    except Exception:  # pragma: no cover
        pass
    return int(d)


def _prim_tag(p):
    if isinstance(p, Prim):
        return p.tag
    if hasattr(p, 'tag') and not isinstance(p, str):
        return p.tag
    return PRIM_TAG[p]


# ---- encoder ----------------------------------------------------------------------------------
def encode_items(e):
    if isinstance(e, list):
        body = []
        for x in e:
            body.extend(encode_items(x))
        return [2] + _u32(len(body)) + body
    if 'prim' in e:
        args = e.get('args') or []
        annots = e.get('annots') or []
        ann_items = []
        for k, a in enumerate(annots):
            if k:
                ann_items.append(0x20)
            ann_items.extend(_text_items(a))
        has_ann = len(annots) > 0
        tag = _prim_tag(e['prim'])
        if len(args) < 3:
            out = [3 + 2 * len(args) + (1 if has_ann else 0), tag]
            for a in args:
                out.extend(encode_items(a))
            if has_ann:
                out.extend(_u32(len(ann_items)) + ann_items)
            return out
        body = []
        for a in args:
            body.extend(encode_items(a))
        return [9, tag] + _u32(len(body)) + body + _u32(len(ann_items)) + ann_items
    if 'int' in e:
        return [0] + enc_z(_int_value(e['int']))
    if 'string' in e:
        t = _text_items(e['string'])
        return [1] + _u32(len(t)) + t
    if 'bytes' in e:
        t = _hex_items(e['bytes'])
        return [10] + _u32(len(t)) + t
    raise ValueError(f'not a Micheline node: {e!r}')


def encode(e):
    return _mk_bytes(encode_items(e))


# ---- decoder ----------------------------------------------------------------------------------
def _mk_text(items):
    try:
        from vf import bvx

        if any(isinstance(i, bvx.SymInt) for i in items):
            for it in items:
                if it >= 0x80:
                    raise bvx.Abort()       # non-ASCII text: outside the claim
            return bvx.SymStr(bvx.SymBytes(items))
    except ImportError:  # pragma: no cover
        pass
    for it in items:
        if it >= 0x80:
            raise OutsideClaim('non-ASCII text')
    return bytes(items).decode()


class OutsideClaim(Exception):
    pass


def _mk_hex(items):
    try:
        from vf import bvx

        if any(isinstance(i, bvx.SymInt) for i in items):
            return bvx.SymHex(bvx.SymBytes(items))
    except ImportError:  # pragma: no cover
        pass
    return bytes(items).hex()


def _mk_dec(v):
    try:
        from vf import bvx

        if isinstance(v, (bvx.SymInt, bvx.IntZ)):
            return bvx.DecStr(v)
    except ImportError:  # pragma: no cover
        pass
    return str(v)


def _conc(n):
    """length fields are data dependent: concretise (forks under bvx)."""
    if isinstance(n, int):
        return n
    return n.__index__()


def _decode_at(items, pos, end, symbolic_prims):
    if pos >= end:
        raise Reject('truncated')
    tag = items[pos]
    pos += 1
    if tag == 0:
        v, pos = dec_z(items[:end], pos)
        return {'int': _mk_dec(v)}, pos
    if tag == 1 or tag == 10:
        n, pos = _read_u32(items[:end], pos)
        if n > end - pos:
            raise Reject('length prefix beyond data')
        n = _conc(n)
        body = items[pos:pos + n]
        pos += n
        return ({'string': _mk_text(body)} if tag == 1 else {'bytes': _mk_hex(body)}), pos
    if tag == 2:
        return _decode_seq(items, pos, end, symbolic_prims)
    if 3 <= tag <= 9:
        if pos >= end:
            raise Reject('truncated prim')
        p = items[pos]
        pos += 1
        if not (p < N_PRIMS):
            raise Reject('unknown primitive')
        expr = {'prim': Prim(p) if symbolic_prims else PRIMS[_conc(p)]}
        if tag == 9:
            args, pos = _decode_seq(items, pos, end, symbolic_prims)
            if len(args):
                expr['args'] = args
            has_ann = True
        else:
            nargs = (_conc(tag) - 3) // 2
            has_ann = (_conc(tag) - 3) % 2 == 1
            if nargs:
                args = []
                for _ in range(nargs):
                    a, pos = _decode_at(items, pos, end, symbolic_prims)
                    args.append(a)
                expr['args'] = args
        if has_ann:
            n, pos = _read_u32(items[:end], pos)
            if n > end - pos:
                raise Reject('annots length beyond data')
            n = _conc(n)
            body = items[pos:pos + n]
            pos += n
            if n > 0:
                expr['annots'] = _split_annots(body)
        return expr, pos
    raise Reject('unknown tag')


def _split_annots(body):
    parts, cur = [], []
    for b in body:
        if b == 0x20:
            parts.append(_mk_text(cur))
            cur = []
        else:
            cur.append(b)
    parts.append(_mk_text(cur))
    return parts


def _decode_seq(items, pos, end, symbolic_prims):
    n, pos = _read_u32(items[:end], pos)
    if n > end - pos:
        raise Reject('sequence length beyond data')
    n = _conc(n)
    stop = pos + n
    out = []
    while pos < stop:
        x, pos = _decode_at(items, pos, stop, symbolic_prims)
        out.append(x)
    return out, pos


def decode(data, symbolic_prims=False):
    items = _items(data)
    e, pos = _decode_at(items, 0, len(items), symbolic_prims)
    if pos != len(items):
        raise Reject('trailing bytes')
    return e
