"""C09 Base58Check typed encodings are unambiguous and invertible."""
from vf.core import Ob

TARGETS = ['pytezos.crypto.encoding.base58_encodings', 'pytezos.crypto.encoding.base58_encode', 'pytezos.crypto.encoding.base58_decode',
           'pytezos.crypto.encoding._validate', 'pytezos.crypto.encoding.is_*']
STUBS = ['base58 package: positional arithmetic model acc = sum d_i*58^i, leading zero bytes <-> leading "1" (validated against the package on every model and on fixed vectors)',
         'SHA-256 checksum: left free (any 32-bit value) in the prefix/length lemma, recomputed with the real function before a model is reported',
         'bvx round trip: base58.b58encode_check / b58decode_check -> recording token (boundary stub)']
BOUNDS = 'every row of base58_encodings (all payloads of the row length: integer queries over the full range 0..256^n-1); texts up to the row length'
OUTSIDE = ['checksum rejection itself (contract of the base58 package)', 'texts with leading "1" characters for rows whose human prefix does not start with "1" (cannot have the prefix)']
ASSUMPTIONS = ['documented prefix/length = the row of the table (the table is the documentation); the Tezos values for SSp/GSp are taken from the Octez base58 prefix list']

ALPHABET = '123456789ABCDEFGHJKLMNPQRSTUVWXYZabcdefghijkmnopqrstuvwxyz'


def table():
    from pytezos.crypto.encoding import base58_encodings

    return [(bytes(h), int(L), bytes(P), int(n), str(name)) for h, L, P, n, name in base58_encodings]


def val58(s: bytes) -> int:
    v = 0
    for ch in s:
        v = v * 58 + ALPHABET.index(chr(ch))
    return v


def _text_of(data: bytes) -> bytes:
    import base58

    return base58.b58encode_check(data)


# ---- (1) prefix/length lemma and (3) converse, one row per obligation ----------------------------
def sym_row(P, ctx):
    import z3

    rows = table()
    i = P['row']
    if i >= len(rows):
        ctx.fail('table has fewer rows than the pinned catalogue', {'row': i})
    h, L, Pb, n, name = rows[i]
    payload, c = z3.Int('payload'), z3.Int('checksum')
    dom = z3.And(payload >= 0, payload < 256 ** n, c >= 0, c < 2 ** 32)
    v = int.from_bytes(Pb, 'big') * 256 ** (n + 4) + payload * 2 ** 32 + c
    if Pb[0] == 0:
        ctx.fail('binary prefix starts with a zero byte (would render as leading 1)', {'row': i})
    good = z3.And(v >= 58 ** (L - 1), v < 58 ** L, v / (58 ** (L - len(h))) == val58(h))

    def validate(w):
        data = Pb + int(w['payload']).to_bytes(n, 'big')
        t = _text_of(data)
        return not (len(t) == L and t.startswith(h))

    ctx.unsat(f'row {i} ({name}): every payload renders with prefix {h.decode()} and length {L}', z3.And(dom, z3.Not(good)),
              {'payload': payload, 'checksum': c}, validate=validate, block=lambda w: payload != int(w['payload']))



def conc_row(P, w):
    from pytezos.crypto.encoding import base58_decode, base58_encode

    rows = table()
    h, L, Pb, n, name = rows[P['row']]
    if 'payload' in w:
        payload = int(w['payload']).to_bytes(n, 'big')
        try:
            t = base58_encode(payload, h)
        except ValueError as e:
            return {'ok': False, 'observed': f'encode raises {e}'}
        ok = len(t) == L and t.startswith(h)
        return {'ok': ok, 'observed': [t.decode(), len(t)], 'expected': [h.decode() + '...', L], 'kind': name}
    return {'ok': False, 'observed': w.get('query')}


# ---- (2) pairwise unambiguity (table level) ---------------------------------------------------------
def sym_pairs(P, ctx):
    import z3

    r = conc_pairs(P, {})
    if not r['ok']:
        ctx.fail('two kinds accept the same string', {'pair': r['observed']})
    # the arithmetic model of the base58 package used by the lemmas, checked on fixed vectors through the solver
    x = z3.Int('x')
    for data in (bytes([6, 161, 159]) + bytes(range(20)), bytes([13, 15, 37, 217]) + bytes([0xFF] * 32), bytes([87, 82, 0, 1, 2, 3, 4])):
        import base58

        text = base58.b58encode_check(data)
        full = base58.b58decode(text)
        ctx.unsat('model: base58 text value equals the big-endian value of data||checksum',
                  z3.And(x == val58(text), x != int.from_bytes(full, 'big')), {'x': x})


def conc_pairs(P, w):
    rows = table()
    bad = []
    for i in range(len(rows)):
        for j in range(i + 1, len(rows)):
            hi, Li, Pi, ni, _ = rows[i]
            hj, Lj, Pj, nj, _ = rows[j]
            text_clash = Li == Lj and (hi.startswith(hj) or hj.startswith(hi))
            bin_clash = len(Pi) + ni == len(Pj) + nj and (Pi.startswith(Pj) or Pj.startswith(Pi))
            enc_clash = hi == hj and ni == nj
            if (text_clash and bin_clash) or enc_clash or (text_clash and hi == hj):
                bad.append([rows[i][4], rows[j][4]])
    return {'ok': not bad, 'observed': bad}


# ---- bvx: round trip and rejection through the real lookup code with the base58 package stubbed --------
class _Token(bytes):
    pass


def _stub_base58(record):
    class B58:
        @staticmethod
        def b58encode_check(data):
            record.append(data)
            return _Token(b'<token>')

        @staticmethod
        def b58decode_check(text):
            if isinstance(text, _Token):
                return record[-1]
            raise AssertionError('b58decode_check reached with a text that matches no kind')

    return B58


def sym_roundtrip(P, ex):
    """decode(encode(payload, h)) == payload for a fully symbolic payload of the row length; the text handed to decode has
    the length and prefix that lemma (1) proves for every payload."""
    import pytezos.crypto.encoding as E
    from vf import bvx

    rows = table()
    h, L, Pb, n, name = rows[P['row']]
    payload = ex.bytes('payload', n)
    record = []
    saved = E.base58
    E.base58 = _stub_base58(record)
    try:
        with bvx.shadowed(E):
            tok = E.base58_encode(payload, h)
            ex.check(len(record) == 1 and record[0] == bvx.SymBytes(list(Pb)) + payload, 'encode hands binary prefix || payload to Base58Check')

            class Text:
                """a text with the row's length and human prefix (lemma 1), everything else unknown"""

                def __len__(self):
                    return L

                def startswith(self, p):
                    p = bytes(p)
                    if h.startswith(p):
                        return True
                    if p.startswith(h) and len(p) > len(h):
                        raise AssertionError('lookup depends on characters after the human prefix')
                    return False

            orig = E.base58.b58decode_check
            E.base58.b58decode_check = staticmethod(lambda t: record[-1])
            back = E.base58_decode(Text())
            E.base58.b58decode_check = orig
            ex.check(back == payload, 'decode(encode(payload)) == payload')
            # wrong length / unknown prefix are rejected before Base58Check is consulted
            for dl in (-1, 1):
                class Wrong(Text):
                    def __len__(self):
                        return L + dl

                other = [r for r in rows if r[1] == L + dl and (h.startswith(r[0]))]
                try:
                    E.base58_decode(Wrong())
                    if not other:
                        ex.fail_here(f'text of length {L + dl} with prefix {h.decode()} accepted')
                except ValueError:
                    pass
            try:
                E.base58_encode(bvx.SymBytes(list(payload.items) + [0]), h)
                if not any(r[0] == h and r[3] == n + 1 for r in rows):
                    ex.fail_here('encode accepts a payload of the wrong length')
            except ValueError:
                pass
            try:
                E.base58_encode(payload, b'zz9')
                ex.fail_here('encode accepts an unknown prefix')
            except ValueError:
                pass
            ex.check(True)
    finally:
        E.base58 = saved
    del tok


def conc_roundtrip(P, w):
    from pytezos.crypto.encoding import base58_decode, base58_encode

    rows = table()
    h, L, Pb, n, name = rows[P['row']]
    payload = bytes(w['payload'])
    try:
        t = base58_encode(payload, h)
        back = base58_decode(t)
    except ValueError as e:
        return {'ok': False, 'observed': f'raises {e}', 'kind': name}
    return {'ok': back == payload and len(t) == L and t.startswith(h), 'observed': [t.decode(), back.hex()], 'expected': payload.hex(), 'kind': name}


def _foreign_text(row):
    """A real string (valid checksum) with the row's human prefix and length whose binary prefix is NOT the row's (z3 integer query)."""
    import z3

    h, L, Pb, n, name = row
    total = len(Pb) + n + 4
    t = z3.Int('text')
    s = z3.Solver()
    s.add(t >= 58 ** (L - 1), t < 58 ** L, t / (58 ** (L - len(h))) == val58(h), t < 256 ** total, t / (256 ** (n + 4)) != int.from_bytes(Pb, 'big'))
    for _ in range(16):
        if s.check() != z3.sat:
            return None
        v = s.model().eval(t).as_long()
        raw = v.to_bytes(total, 'big')
        text = _text_of(raw[:-4])
        if len(text) == L and text.startswith(h) and raw[:len(Pb)] != Pb:
            return text
        s.add(t / (2 ** 32) != v // 2 ** 32)
    return None


def sym_foreign(P, ex):
    """Whatever bytes Base58Check decoding yields for a text that selects this row, base58_decode accepts it only when the bytes
    start with the row's binary prefix, and then returns the rest."""
    import pytezos.crypto.encoding as E
    from vf import bvx

    rows = table()
    h, L, Pb, n, name = rows[P['row']]
    data = ex.bytes('data', len(Pb) + n)

    class Text:
        def __len__(self):
            return L

        def startswith(self, p):
            return h.startswith(bytes(p))

    class B58:
        @staticmethod
        def b58decode_check(text):
            return data

    saved = E.base58
    E.base58 = B58
    try:
        with bvx.shadowed(E):
            good = data[:len(Pb)] == bvx.SymBytes(list(Pb))
            try:
                out = E.base58_decode(Text())
            except ValueError:
                ex.check(bvx.sym_not(good), 'a string of this kind is rejected')
                return
            ex.check(good, 'a string whose binary prefix is foreign to the kind selected by its text prefix/length is rejected')
            ex.check(out == data[len(Pb):], 'the payload is what follows the binary prefix')
    finally:
        E.base58 = saved


def conc_foreign(P, w):
    from pytezos.crypto.encoding import base58_decode

    rows = table()
    row = rows[P['row']]
    h, L, Pb, n, name = row
    data = bytes(w.get('data', b''))
    if data[:len(Pb)] == Pb:
        # a string of this kind: must be accepted and yield exactly what follows the binary prefix
        text = _text_of(data)
        try:
            out = base58_decode(text)
        except ValueError as e:
            return {'ok': False, 'observed': f'rejected: {e}', 'text': text.decode()}
        return {'ok': out == data[len(Pb):], 'observed': out.hex(), 'expected': data[len(Pb):].hex(), 'text': text.decode()}
    text = _foreign_text(row)
    if text is None:
        return {'ok': True, 'note': 'no real string with this prefix/length and a foreign binary prefix exists'}
    try:
        out = base58_decode(text)
    except ValueError as e:
        return {'ok': True, 'observed': f'rejected: {e}', 'text': text.decode()}
    return {'ok': False, 'observed': {'text': text.decode(), 'decoded': out.hex()}, 'expected': f'ValueError: binary prefix of {name} is {Pb.hex()}'}


# ---- validators ----------------------------------------------------------------------------------------
VALIDATORS = {
    'is_pkh': ['tz1', 'tz2', 'tz3', 'tz4'], 'is_kt': ['KT1'], 'is_sr': ['sr1'], 'is_l2_pkh': ['txr1'], 'is_chain_id': ['Net'],
    'is_sig': ['edsig', 'spsig', 'p2sig', 'BLsig', 'sig'], 'is_bh': ['B'], 'is_ogh': ['o'],
    'is_public_key': ['edsk', 'edpk', 'spsk', 'sppk', 'p2sk', 'p2pk', 'BLsk', 'BLpk'],
}


def sym_validators(P, ctx):
    r = conc_validators(P, {})
    if not r['ok']:
        ctx.fail('kind validator accepts/rejects the wrong kinds', {'detail': r['observed']})
    import z3

    x = z3.Int('x')
    ctx.unsat('trivial', z3.And(x > 0, x < 0), {'x': x})


def conc_validators(P, w):
    import pytezos.crypto.encoding as E

    rows = table()
    bad = []
    for h, L, Pb, n, name in rows:
        try:
            text = E.base58_encode(bytes([7] * n), h)
        except ValueError:
            continue
        if not (len(text) == L and text.startswith(h)):
            continue
        for vname, prefixes in VALIDATORS.items():
            exp = any(text.startswith(p.encode()) for p in prefixes)
            got = getattr(E, vname)(text)
            if got != exp:
                bad.append([vname, text.decode(), got])
    return {'ok': not bad, 'observed': bad[:5]}


def obligations(tier):
    n_rows = len(table())
    obs = [Ob('pairs+model', 'smt', sym_pairs, conc_pairs, timeout=60, bounds='all pairs of rows (table level) + arithmetic model vectors', targets=TARGETS),
           Ob('validators', 'smt', sym_validators, conc_validators, timeout=60, bounds='every kind validator on a real string of every kind', targets=TARGETS)]
    for i in range(n_rows):
        name = table()[i][4]
        obs.append(Ob(f'lemma/row{i:02d}/{name}', 'smt', sym_row, conc_row, {'row': i}, timeout=120,
                      bounds='all payloads of the row length, checksum free', targets=TARGETS))
        obs.append(Ob(f'foreign-prefix/row{i:02d}/{name}', 'bvx', sym_foreign, conc_foreign, {'row': i}, timeout=60, opts={'W': 16},
                      bounds='Base58Check yields arbitrary bytes of the row length for a text selecting this row', targets=TARGETS))
        obs.append(Ob(f'roundtrip/row{i:02d}/{name}', 'bvx', sym_roundtrip, conc_roundtrip, {'row': i}, timeout=60, opts={'W': 16},
                      bounds='fully symbolic payload of the row length through the real lookup code', targets=TARGETS))
    return obs
