"""C06 Local operation forging matches the Tezos operation binary format."""
import contextlib

from harness import C10, mbv
from vf.core import Ob

TARGETS = ['pytezos.operation.forge.forge_operation_group', 'pytezos.operation.forge.forge_operation', 'pytezos.operation.forge.forge_* (per kind)',
           'pytezos.operation.forge.forge_entrypoint', 'pytezos.operation.forge.has_parameters', 'pytezos.operation.forge.reserved_entrypoints',
           'pytezos.rpc.kind.operation_tags', 'pytezos.michelson.forge.forge_address/forge_public_key/forge_nat/forge_base58/forge_array/forge_script/forge_micheline']
STUBS = ['base58 package boundary (see C10): every address/key/hash field carries a fully symbolic payload', 'str(int)/int(str), hex/fromhex -> opaque wrappers']
BOUNDS = {'quick': 'every listed content kind; one numeric field per obligation ranges over |v| < 2^118 ("2^64 and beyond"), the others over < 2^7 (single Zarith group); all hash/key payloads symbolic; entrypoints: '
                   'absent, default, the 10 protocol-reserved names, named (1 and 31 bytes), fully symbolic names over [A-Za-z0-9_] of every length a reserved name has (+ 1, 9); Micheline parameters with a symbolic int leaf; rollup message lists with symbolic messages of 0..2 bytes (incl. empty messages in every position); groups of 1..3 contents',
          'thorough': 'all numeric fields < 2^118 in turn, more source/destination kind combinations'}
OUTSIDE = ['consensus / voting / evidence kinds', 'Micheline inside parameters beyond one leaf (C05)', 'rejection of entrypoint names longer than 31 bytes (the property quantifies over well-formed fields)']
ASSUMPTIONS = ['reference = ref/opbin.py (protocol operation encoding: tags 4, 17, 107-111, 158, 201, 206; entrypoint tags 0..9, 255 + length-prefixed name), validated on the recorded '
               'mainnet groups of tests/unit_tests/test_operation/data on every run; injectivity follows from equality with the (decodable) reference encoding']

CURVE = {'tz1': 0, 'tz2': 1, 'tz3': 2, 'tz4': 3}
KEYTAG = {'edpk': 0, 'sppk': 1, 'p2pk': 2, 'BLpk': 3}


class Fields:
    """Creates base58 fields: real representative text for pytezos, decoded form with symbolic payload for the reference."""

    def __init__(self, ex, boundary):
        self.ex, self.b, self.n = ex, boundary, 0

    def _fresh(self, prefix, label, length=None):
        import base58

        h, L, P, nn = C10._row(prefix, length)
        self.n += 1
        text = base58.b58encode_check(P + bytes([0x20 + self.n] * nn)).decode()
        payload = self.ex.bytes(f'{label}:{prefix}', nn)
        self.b.rep[text] = ((h, L, P, nn), payload)
        return text, list(payload.items)

    def pkh(self, kind, label):
        t, p = self._fresh(kind, label)
        return t, (CURVE[kind], p)

    def contract(self, kind, label):
        t, p = self._fresh(kind, label)
        if kind in CURVE:
            return t, ('implicit', CURVE[kind], p)
        return t, ('originated' if kind == 'KT1' else 'rollup', p)

    def key(self, kind, label):
        t, p = self._fresh(kind, label)
        return t, (KEYTAG[kind], p)

    def raw(self, prefix, label, length=None):
        return self._fresh(prefix, label, length)


def _numeric(ex, names, wide):
    out = {}
    for n in names:
        v = ex.bv('num:' + n)
        lim = (1 << (ex.W - 10)) if n == wide else (1 << 7)
        ex.assume((v >= 0) & (v < lim))
        out[n] = v
    return out


def _micheline_param(ex, kind):
    from vf import bvx

    if kind == 'unit':
        return {'prim': 'Unit'}
    v = ex.bv('param:int')
    ex.assume((v > -(1 << 13)) & (v < (1 << 13)))
    leaf = {'int': bvx.DecStr(v)}
    if kind == 'int':
        return leaf
    return {'prim': 'Pair', 'args': [leaf, {'prim': 'Unit'}]}


def build(P, ex, f):
    """-> (pytezos content dict, reference content dict)"""
    from vf import bvx

    kind = P['kind']
    if kind == 'activate_account':
        t, p = f.raw('tz1', 'pkh')
        secret = ex.bytes('secret', 20)
        return {'kind': kind, 'pkh': t, 'secret': bvx.SymHex(secret)}, {'kind': kind, 'pkh': p, 'secret': list(secret.items)}
    if kind == 'failing_noop':
        text = ex.bytes('arbitrary', P.get('n', 2))
        for it in text.items:
            ex.assume(it < 0x80)
        return {'kind': kind, 'arbitrary': bvx.SymStr(text)}, {'kind': kind, 'arbitrary': list(text.items)}
    nums = ['fee', 'counter', 'gas_limit', 'storage_limit'] + {'transaction': ['amount'], 'origination': ['balance'], 'transfer_ticket': ['ticket_amount']}.get(kind, [])
    N = _numeric(ex, nums, P.get('wide', 'fee'))
    st, sr = f.pkh(P.get('source', 'tz1'), 'source')
    c = {'kind': kind, 'source': st}
    r = {'kind': kind, 'source': sr}
    for n in ('fee', 'counter', 'gas_limit', 'storage_limit'):
        c[n] = bvx.DecStr(N[n])
        r[n] = N[n]
    if kind == 'reveal':
        kt, kr = f.key(P.get('key', 'edpk'), 'public_key')
        c['public_key'], r['public_key'] = kt, kr
        if P.get('proof'):
            pt, pr = f.raw('BLsig', 'proof')
            c['proof'], r['proof'] = pt, pr
    elif kind == 'transaction':
        if P.get('destination') == 'source':
            dt, dr = st, ('implicit',) + tuple(sr)      # the sender pays itself: the same address text in the 21-byte and in the 22-byte role
        else:
            dt, dr = f.contract(P.get('destination', 'KT1'), 'destination')
        c.update(amount=bvx.DecStr(N['amount']), destination=dt)
        r.update(amount=N['amount'], destination=dr)
        ep = P.get('entrypoint')
        if ep is not None:
            val = _micheline_param(ex, P.get('param', 'int'))
            epc = epr = ep
            if isinstance(ep, (list, tuple)) and ep[0] == 'sym':
                epc, epr = _sym_entrypoint(ex, ep[1])
            c['parameters'] = {'entrypoint': epc, 'value': val}
            r['parameters'] = {'entrypoint': epr, 'value': val}
    elif kind == 'origination':
        c['balance'], r['balance'] = bvx.DecStr(N['balance']), N['balance']
        if P.get('delegate'):
            dt, dr = f.pkh(P['delegate'], 'delegate')
            c['delegate'], r['delegate'] = dt, dr
        code = [{'prim': 'parameter', 'args': [{'prim': 'unit'}]}, {'prim': 'storage', 'args': [{'prim': 'int'}]}, {'prim': 'code', 'args': [[{'prim': 'CDR'}, {'prim': 'NIL', 'args': [{'prim': 'operation'}]}, {'prim': 'PAIR'}]]}]
        storage = _micheline_param(ex, 'int')
        c['script'] = {'code': code, 'storage': storage}
        r['script'] = {'code': code, 'storage': storage}
    elif kind == 'delegation':
        if P.get('delegate') == 'source':
            c['delegate'], r['delegate'] = st, sr
        elif P.get('delegate'):
            dt, dr = f.pkh(P['delegate'], 'delegate')
            c['delegate'], r['delegate'] = dt, dr
    elif kind == 'register_global_constant':
        val = _micheline_param(ex, 'pair')
        c['value'], r['value'] = val, val
    elif kind == 'transfer_ticket':
        tt, tr = f.contract('KT1', 'ticket_ticketer')
        dt, dr = f.contract(P.get('destination', 'KT1'), 'destination')
        val = _micheline_param(ex, 'int')
        ty = {'prim': 'int'}
        c.update(ticket_contents=val, ticket_ty=ty, ticket_ticketer=tt, ticket_amount=bvx.DecStr(N['ticket_amount']), destination=dt, entrypoint=P.get('entrypoint', 'default'))
        r.update(ticket_contents=val, ticket_ty=ty, ticket_ticketer=tr, ticket_amount=N['ticket_amount'], destination=dr, entrypoint=P.get('entrypoint', 'default'))
    elif kind == 'smart_rollup_add_messages':
        lens = P['lens'] if 'lens' in P else [P.get('n', 2) - i for i in range(P.get('nmsg', 2))]
        msgs = [ex.bytes(f'msg{i}', n) for i, n in enumerate(lens)]
        c['message'] = [bvx.SymHex(m) for m in msgs]
        r['message'] = [list(m.items) for m in msgs]
    elif kind == 'smart_rollup_execute_outbox_message':
        rt, rr = f.raw('sr1', 'rollup')
        ct, cr = f.raw('src1', 'cemented_commitment')
        proof = ex.bytes('output_proof', P.get('n', 2))
        c.update(rollup=rt, cemented_commitment=ct, output_proof=bvx.SymHex(proof))
        r.update(rollup=rr, cemented_commitment=cr, output_proof=list(proof.items))
    else:
        raise KeyError(kind)
    return c, r


class _RawName:
    """Reference-side entrypoint name that is known not to be a reserved one (symbolic characters)."""

    def __init__(self, items):
        self.items = items

    def encode(self):
        return list(self.items)

    def __len__(self):
        return len(self.items)


def _sym_entrypoint(ex, L):
    """-> (name for pytezos, name for the reference): L symbolic characters of [A-Za-z0-9_]"""
    from ref import opbin
    from vf import bvx

    raw = ex.bytes('entrypoint', L)
    if not hasattr(ex, 'solver') and not hasattr(ex, '_ex'):
        text = bytes(raw.items).decode()       # concrete replay
        return text, text
    for it in raw.items:
        v = bvx.SymInt(bvx.bv(it))
        ex.assume(((v >= 97) & (v <= 122)) | ((v >= 65) & (v <= 90)) | ((v >= 48) & (v <= 57)) | (v == 95))
    name = bvx.SymStr(raw)
    for rname in opbin.ENTRYPOINT_TAGS:
        if len(rname) == L and bool(name == rname):
            return name, rname
    return name, _RawName(list(raw.items))


class SymDict(dict):
    """dict with concrete str keys that can be probed with a symbolic text (equality decided by the solver, one fork per same-length key)."""

    def _find(self, k):
        from vf import bvx

        if isinstance(k, bvx.SymStr):
            for key in dict.keys(self):
                if len(key) == len(k) and bool(k == key):
                    return key
            return None
        return k if dict.__contains__(self, k) else None

    def __contains__(self, k):
        return self._find(k) is not None

    def __getitem__(self, k):
        f = self._find(k)
        if f is None:
            raise KeyError(k)
        return dict.__getitem__(self, f)

    def get(self, k, default=None):
        f = self._find(k)
        return default if f is None else dict.__getitem__(self, f)


_OPF = None


def op_forge_module():
    """pytezos.operation.forge re-instantiated for proxy execution, bound to the re-instantiated michelson forge module."""
    global _OPF
    if _OPF is None:
        from vf import bvx

        import sys

        F = mbv.forge_module()
        # the module is re-instantiated with its `from pytezos.michelson.forge import ...` lines resolving to the proxy-aware re-instantiation of that
        # module, so that anything the module builds around those functions at import time (wrappers, tables) is kept
        real = sys.modules.get('pytezos.michelson.forge')
        sys.modules['pytezos.michelson.forge'] = F
        try:
            M = bvx.load_module('/repo/src/pytezos/operation/forge.py', 'bvx_operation_forge')
        finally:
            if real is not None:
                sys.modules['pytezos.michelson.forge'] = real
            else:
                del sys.modules['pytezos.michelson.forge']
        M.reserved_entrypoints = SymDict(M.reserved_entrypoints)
        _OPF = M
    return _OPF


@contextlib.contextmanager
def env(ex):
    F = mbv.forge_module()
    with C10.boundary(ex, []) as b:
        saved = F.base58
        F.base58 = b
        try:
            yield b
        finally:
            F.base58 = saved


def sym_group(P, ex):
    from ref import opbin
    from vf import bvx

    M = op_forge_module()
    with env(ex) as b:
        f = Fields(ex, b)
        bt, br = f.raw('B', 'branch')
        cs, rs = [], []
        for i, cp in enumerate(P['contents']):
            sub = dict(cp)
            c, r = build(sub, _Prefixed(ex, f'c{i}.'), _PrefixedFields(f, f'c{i}.'))
            cs.append(c)
            rs.append(r)
        try:
            got = M.forge_operation_group({'branch': bt, 'contents': cs})
        except (bvx.Abort, bvx.Found, bvx.Inconclusive):
            raise
        except Exception as e:  # noqa
            ex.fail_here(f'forging failed: {type(e).__name__}: {e}')
        exp = opbin.group(br, rs)
        ex.check(got == bvx.SymBytes(exp), 'forged bytes equal the Tezos binary encoding of the group')


class _Prefixed:
    """explorer facade that prefixes symbol names (several contents in one group)"""

    def __init__(self, ex, prefix):
        self._ex, self._p = ex, prefix
        self.W = ex.W

    def bv(self, name):
        return self._ex.bv(self._p + name)

    def bytes(self, name, n):
        return self._ex.bytes(self._p + name, n)

    def assume(self, c):
        return self._ex.assume(c)


class _PrefixedFields:
    def __init__(self, f, prefix):
        self.f, self.p = f, prefix

    def pkh(self, kind, label):
        return self.f.pkh(kind, self.p + label)

    def contract(self, kind, label):
        return self.f.contract(kind, self.p + label)

    def key(self, kind, label):
        return self.f.key(kind, self.p + label)

    def raw(self, prefix, label, length=None):
        return self.f.raw(prefix, self.p + label, length)


# ---- concrete replay ---------------------------------------------------------------------------------
class _ConcFields:
    def __init__(self, w, prefix=''):
        self.w, self.p = w, prefix

    def _fresh(self, prefix, label, length=None):
        import base58

        h, L, P, nn = C10._row(prefix, length)
        payload = bytes(self.w.get(f'{self.p}{label}:{prefix}', bytes(nn)))
        return base58.b58encode_check(P + payload).decode(), list(payload)

    pkh = lambda self, kind, label: (lambda t, p: (t, (CURVE[kind], p)))(*self._fresh(kind, label))     # noqa
    key = lambda self, kind, label: (lambda t, p: (t, (KEYTAG[kind], p)))(*self._fresh(kind, label))    # noqa

    def contract(self, kind, label):
        t, p = self._fresh(kind, label)
        if kind in CURVE:
            return t, ('implicit', CURVE[kind], p)
        return t, ('originated' if kind == 'KT1' else 'rollup', p)

    def raw(self, prefix, label, length=None):
        return self._fresh(prefix, label, length)


class _ConcEx:
    W = 128

    def __init__(self, w, prefix=''):
        self.w, self.p = w, prefix

    def bv(self, name):
        return int(self.w.get(self.p + name, 0))

    def bytes(self, name, n):
        class B:
            def __init__(s, data):
                s.items = list(data)

        return B(bytes(self.w.get(self.p + name, bytes(n))))

    def assume(self, c):
        return None


def conc_group(P, w):
    from pytezos.operation.forge import forge_operation_group
    from ref import opbin

    w = dict(w)
    bt, br = _ConcFields(w)._fresh('B', 'branch')
    cs, rs = [], []
    for i, cp in enumerate(P['contents']):
        c, r = _conc_build(dict(cp), _ConcEx(w, f'c{i}.'), _ConcFields(w, f'c{i}.'))
        cs.append(c)
        rs.append(r)
    try:
        got = forge_operation_group({'branch': bt, 'contents': cs})
    except Exception as e:  # noqa
        return {'ok': False, 'contents': cs, 'observed': f'{type(e).__name__}: {e}'}
    exp = bytes(opbin.group(br, rs))
    return {'ok': got == exp, 'contents': cs, 'observed': got.hex(), 'expected': exp.hex()}


def _conc_build(P, ex, f):
    """build() with plain values: same code path, DecStr/SymHex/SymStr replaced by str/hex/text"""
    import harness.C06 as me
    from vf import bvx

    class FakeDec(str):
        pass

    saved = (bvx.DecStr, bvx.SymHex, bvx.SymStr)
    bvx.DecStr = lambda v: str(int(v))
    bvx.SymHex = lambda b: bytes(b.items).hex()
    bvx.SymStr = lambda b: bytes(b.items).decode()
    try:
        c, r = me.build(P, ex, f)
    finally:
        bvx.DecStr, bvx.SymHex, bvx.SymStr = saved
    # reference side: DecStr leaves inside Micheline are plain strings now, numbers are ints already
    return c, r


def conc_ref_validate(P, w):
    """Reference encoder vs the recorded mainnet groups of the repository (whose operation hash covers every forged byte)."""
    import glob
    import json

    import base58

    from pytezos.crypto.encoding import base58_decode
    from pytezos.operation.forge import forge_operation_group
    from ref import opbin

    def dec_pkh(t):
        return (CURVE[t[:3]], list(base58_decode(t.encode())))

    def dec_contract(t):
        if t[:3] in CURVE:
            return ('implicit',) + dec_pkh(t)
        return ('originated' if t.startswith('KT1') else 'rollup', list(base58_decode(t.encode())))

    n = 0
    for path in sorted(glob.glob('/repo/tests/unit_tests/test_operation/data/*.json')):
        data = json.load(open(path))
        rs = []
        try:
            for c in data['contents']:
                r = {'kind': c['kind'], 'source': dec_pkh(c['source'])}
                for k in ('fee', 'counter', 'gas_limit', 'storage_limit'):
                    r[k] = int(c[k])
                if c['kind'] == 'transaction':
                    r['amount'] = int(c['amount'])
                    r['destination'] = dec_contract(c['destination'])
                    if 'parameters' in c:
                        r['parameters'] = c['parameters']
                elif c['kind'] == 'origination':
                    r['balance'] = int(c['balance'])
                    if c.get('delegate'):
                        r['delegate'] = dec_pkh(c['delegate'])
                    r['script'] = c['script']
                elif c['kind'] == 'reveal':
                    r['public_key'] = (KEYTAG[c['public_key'][:4]], list(base58_decode(c['public_key'].encode())))
                elif c['kind'] == 'delegation':
                    if c.get('delegate'):
                        r['delegate'] = dec_pkh(c['delegate'])
                elif c['kind'] == 'smart_rollup_add_messages':
                    r['message'] = [list(bytes.fromhex(m)) for m in c['message']]
                elif c['kind'] == 'transfer_ticket':
                    r.update(ticket_contents=c['ticket_contents'], ticket_ty=c['ticket_ty'], ticket_ticketer=dec_contract(c['ticket_ticketer']),
                             ticket_amount=int(c['ticket_amount']), destination=dec_contract(c['destination']), entrypoint=c['entrypoint'])
                elif c['kind'] == 'smart_rollup_execute_outbox_message':
                    r.update(rollup=list(base58_decode(c['rollup'].encode())), cemented_commitment=list(base58_decode(c['cemented_commitment'].encode())),
                             output_proof=list(bytes.fromhex(c['output_proof'])))
                else:
                    raise KeyError(c['kind'])
                rs.append(r)
        except KeyError:
            continue
        exp = bytes(opbin.group(list(base58_decode(data['branch'].encode())), rs))
        got = forge_operation_group(data)
        if exp != got:
            return {'ok': False, 'observed': f'reference differs from pytezos on recorded group {path}'}
        n += 1
    del base58
    return {'ok': n >= 3, 'vectors': n}


def sym_ref_validate(P, ex):
    r = conc_ref_validate(P, {})
    if not r['ok']:
        ex.fail_here(str(r))
    ex.check(True)


RESERVED = ['default', 'root', 'do', 'set_delegate', 'remove_delegate', 'deposit', 'stake', 'unstake', 'finalize_unstake', 'set_delegate_parameters']


def obligations(tier):
    q = tier == 'quick'
    t = 180 if q else 1500
    obs = [Ob('ref-validate', 'bvx', sym_ref_validate, conc_ref_validate, timeout=120, bounds='concrete: reference encoder vs the recorded mainnet groups', targets=TARGETS)]

    def add(name, contents, note=''):
        obs.append(Ob(name, 'bvx', sym_group, conc_group, {'contents': contents}, timeout=t, opts={'W': 128},
                      bounds=note or 'all numeric fields / payloads symbolic as stated in BOUNDS', targets=TARGETS, stubs=STUBS))

    tx = {'kind': 'transaction'}
    add('transaction/no-parameters', [dict(tx)])
    add('transaction/default+Unit', [dict(tx, entrypoint='default', param='unit')])
    add('transaction/default+int', [dict(tx, entrypoint='default', param='int')])
    for ep in RESERVED[1:]:
        add(f'transaction/entrypoint={ep}', [dict(tx, entrypoint=ep, param='unit' if ep in ('stake', 'finalize_unstake', 'remove_delegate') else 'int')])
    add('transaction/entrypoint=a', [dict(tx, entrypoint='a', param='pair')])
    add('transaction/entrypoint=31-chars', [dict(tx, entrypoint='e' * 31, param='int')])
    add('transaction/entrypoint=mint+Unit', [dict(tx, entrypoint='mint', param='unit')])
    for wide in ('counter', 'gas_limit', 'storage_limit', 'amount'):
        add(f'transaction/wide={wide}', [dict(tx, wide=wide)], f'{wide} < 2^118')
    for src in ('tz2', 'tz3', 'tz4'):
        add(f'transaction/source={src}', [dict(tx, source=src, destination={'tz2': 'tz1', 'tz3': 'sr1', 'tz4': 'tz4'}[src], entrypoint='a', param='int')])
    for dst in ('tz1', 'tz2', 'sr1'):
        add(f'transaction/destination={dst}', [dict(tx, destination=dst)])
    for key in ('edpk', 'sppk', 'p2pk', 'BLpk'):
        add(f'reveal/{key}', [{'kind': 'reveal', 'key': key, 'source': {'edpk': 'tz1', 'sppk': 'tz2', 'p2pk': 'tz3', 'BLpk': 'tz4'}[key]}])
    add('reveal/BLpk+proof', [{'kind': 'reveal', 'key': 'BLpk', 'source': 'tz4', 'proof': True}])
    add('origination', [{'kind': 'origination', 'wide': 'balance'}])
    add('origination+delegate', [{'kind': 'origination', 'delegate': 'tz3'}])
    add('delegation', [{'kind': 'delegation', 'delegate': 'tz1'}])
    add('delegation/withdraw', [{'kind': 'delegation'}])
    add('register_global_constant', [{'kind': 'register_global_constant'}])
    add('transfer_ticket', [{'kind': 'transfer_ticket', 'wide': 'ticket_amount', 'entrypoint': 'default'}])
    add('transfer_ticket/to-implicit', [{'kind': 'transfer_ticket', 'destination': 'tz1', 'entrypoint': 'receive'}])
    add('smart_rollup_add_messages', [{'kind': 'smart_rollup_add_messages', 'nmsg': 2, 'n': 2}])
    add('transaction/to-self', [dict(tx, destination='source', wide='none')])
    add('group/delegation-to-self+transaction-to-self', [{'kind': 'delegation', 'delegate': 'source', 'wide': 'none'}, dict(tx, destination='source', wide='none')])
    add('group/transaction-to-self+delegation-to-self', [dict(tx, destination='source', wide='none'), {'kind': 'delegation', 'delegate': 'source', 'wide': 'none'}])
    add('smart_rollup_add_messages/empty', [{'kind': 'smart_rollup_add_messages', 'nmsg': 0}])
    for lens in ([0], [0, 1], [1, 0], [0, 0, 2]):
        add(f'smart_rollup_add_messages/lengths={lens}', [{'kind': 'smart_rollup_add_messages', 'lens': lens}])
    # symbolic entrypoint names: every name of the length of a reserved name (and two other lengths) over [A-Za-z0-9_]
    for L in sorted({len(n) for n in ('default', 'root', 'do', 'set_delegate', 'remove_delegate', 'deposit', 'stake', 'unstake', 'finalize_unstake', 'set_delegate_parameters')} | {1, 9}):
        add(f'transaction/entrypoint=symbolic/len={L}', [dict(tx, entrypoint=['sym', L], param='unit' if L % 2 else 'int', wide='none')])
    add('smart_rollup_execute_outbox_message', [{'kind': 'smart_rollup_execute_outbox_message', 'n': 2}])
    add('failing_noop', [{'kind': 'failing_noop', 'n': 3}])
    add('activate_account', [{'kind': 'activate_account'}])
    add('group/reveal+transaction', [{'kind': 'reveal', 'key': 'edpk', 'wide': 'counter'}, dict(tx, entrypoint='a', param='int', wide='none')])
    add('group/3-transactions', [dict(tx, wide='none'), dict(tx, entrypoint='do', param='int', destination='tz1', wide='amount'), dict(tx, destination='sr1', wide='none')])
    if not q:
        for src in ('tz1', 'tz2', 'tz3', 'tz4'):
            for dst in ('tz1', 'tz4', 'KT1', 'sr1'):
                add(f'transaction/{src}->{dst}/wide=fee', [dict(tx, source=src, destination=dst, entrypoint='stake', param='unit')])
    return obs
