"""Engine C (`smt`): direct z3 (and optionally cvc5) queries generated from the code's tables.

ob.sym(P, ctx) drives the queries through `ctx`:
    ctx.unsat(name, formula, vars, validate=None, block=None)
        asserts that `formula` is unsatisfiable.  sat -> the model is turned into a witness
        {var name: value}; when `validate` is given it must confirm the witness on the real code
        (returns True when the violation is real); a spurious witness (over-approximated
        environment, e.g. a free checksum) is blocked with `block(witness)` and the query is
        repeated (bounded) -- it ends as inconclusive, never as success.
"""
from __future__ import annotations

import time
from typing import Any, Callable, Dict, List, Optional

import z3

from vf.core import Ob


class Found(BaseException):
    pass


class Ctx:
    def __init__(self, timeout: float, excluded: List[str], P: dict):
        self.deadline = time.time() + timeout
        self.queries = 0
        self.solver_s = 0.0
        self.discharged = 0
        self.inconclusive: List[str] = []
        self.cex: Optional[dict] = None
        self.excluded = excluded
        self.P = P
        self.spurious = 0

    def _solve(self, formula, timeout_ms=None):
        s = z3.Solver()
        left = max(1.0, self.deadline - time.time())
        s.set('timeout', int(min(left, (timeout_ms or 10**9) / 1000.0) * 1000))
        s.add(formula)
        t0 = time.perf_counter()
        r = s.check()
        self.solver_s += time.perf_counter() - t0
        self.queries += 1
        return r, (s.model() if r == z3.sat else None)

    def unsat(self, name: str, formula, vars: Dict[str, Any], validate: Optional[Callable[[dict], bool]] = None,
              block: Optional[Callable[[dict], Any]] = None, max_spurious: int = 8, region_env: Optional[Callable[[dict], dict]] = None):
        extra = []
        # known-finding regions are predicates over the witness variables plus P and the query name
        for _ in range(max_spurious + 1):
            f = z3.And(formula, *extra) if extra else formula
            r, m = self._solve(f)
            if r == z3.unsat:
                self.discharged += 1
                return True
            if r == z3.unknown:
                self.inconclusive.append(f'{name}: solver returned unknown')
                return False
            w = {}
            for k, v in vars.items():
                val = m.eval(v, model_completion=True)
                if z3.is_int_value(val):
                    w[k] = val.as_long()
                elif z3.is_bv_value(val):
                    w[k] = val.as_long()
                elif z3.is_true(val) or z3.is_false(val):
                    w[k] = bool(z3.is_true(val))
                else:
                    w[k] = str(val)
            w['query'] = name
            if validate is not None and not validate(w):
                self.spurious += 1
                if block is None:
                    self.inconclusive.append(f'{name}: model does not reproduce on the real code and cannot be blocked')
                    return False
                extra.append(block(w))
                continue
            # excluded known regions: evaluated concretely on the witness; if inside, block and continue
            inside = False
            for reg in self.excluded:
                try:
                    env = {'P': self.P}
                    env.update(w)
                    if eval(reg, {'__builtins__': __builtins__}, env):
                        inside = True
                        break
                except Exception:
                    pass
            if inside and block is not None:
                extra.append(block(w))
                continue
            self.cex = {'witness': w, 'message': f'{name} is satisfiable'}
            raise Found()
        self.inconclusive.append(f'{name}: only spurious or known models within {max_spurious} rounds')
        return False

    def fail(self, name: str, witness: dict):
        witness = dict(witness)
        witness['query'] = name
        self.cex = {'witness': witness, 'message': name}
        raise Found()


def run(ob: Ob, excluded: List[str], timeout: float) -> Dict[str, Any]:
    ctx = Ctx(timeout, excluded, ob.P)
    t0 = time.time()
    verdict = 'proved'
    message = ''
    try:
        ob.sym(ob.P, ctx)
    except Found:
        verdict = 'refuted'
    res: Dict[str, Any] = {'paths': ctx.discharged, 'reached': ctx.discharged, 'queries': ctx.queries, 'solver_s': round(ctx.solver_s, 3),
                           'wall_s': round(time.time() - t0, 3), 'spurious_models_blocked': ctx.spurious}
    if verdict == 'refuted':
        res['verdict'] = 'refuted'
        res['witness'] = ctx.cex['witness']
        res['message'] = ctx.cex['message']
    elif ctx.inconclusive:
        res['verdict'] = 'inconclusive'
        res['message'] = '; '.join(ctx.inconclusive)[:500]
    elif ctx.discharged == 0:
        res['verdict'] = 'error'
        res['message'] = 'no query discharged'
    else:
        res['verdict'] = 'proved'
    return res
