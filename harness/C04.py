"""C04 PACK produces Tezos bytes and UNPACK inverts it for every packable type."""
from harness import mbv, mich
from vf.core import Ob

TARGETS = ['pytezos.michelson.types.base.MichelsonType.pack', 'pytezos.michelson.types.base.MichelsonType.unpack', 'pytezos.michelson.types.base.MichelsonType.forge',
           'pytezos.michelson.types.*.to_micheline_value(optimized)', 'pytezos.michelson.types.*.from_micheline_value',
           'pytezos.michelson.types.pair.PairType.to_micheline_value', 'pytezos.michelson.forge.forge_micheline', 'pytezos.michelson.forge.unforge_micheline',
           'pytezos.michelson.instructions.generic.PackInstruction.execute', 'pytezos.michelson.instructions.generic.UnpackInstruction.execute']
STUBS = ['str(int)/int(str), hex/fromhex, encode/decode(ASCII) -> opaque wrappers', 'symbolic primitive tags are concretised by forking',
         'format_stdout -> no-op', 'base58 package boundary stub for address/key_hash/key/signature/chain_id leaves (see C10)']
BOUNDS = {'quick': 'type catalogue of depth <= 3 (combs up to 5 leaves); |ints| < 2^86, strings/bytes <= 2 symbols, collections <= 2 entries; UNPACK of every byte string of <= 3 bytes at 6 types',
          'thorough': 'same as quick (larger sizes and the deeper types of TYPES_T did not finish within 40 minutes and are outside the claim)'}
OUTSIDE = ['lambda/contract/ticket-bearing types', 'values larger than the bounds', 'non-ASCII strings']
ASSUMPTIONS = ['reference layout: 0x05 || binary Micheline (ref/michbin.py) of the optimized rendering; right combs of >= 4 leaves are sequences, 3 leaves a nested Pair',
               'UNPACK must return None whenever the bytes are not valid binary Micheline (reference decoder of C05); type mismatches may also give None']

TYPES_Q = ['int', 'nat', 'mutez', 'timestamp', 'string', 'bytes', 'bool', 'unit', 'pair int nat', 'pair int nat string', 'pair int nat string bytes',
           'pair int nat bool unit mutez', 'pair (pair int nat) (pair string bytes)', 'pair (pair int nat string bytes) int',
           'option int', 'option (pair int nat string bool)', 'or int (pair nat string)', 'list int', 'list (pair int nat string bytes)',
           'pair (nat %a) (pair %rest (nat %b) (pair %tail (nat %c) (nat %d)))', 'pair (int :x) (pair :p (nat %y) (pair (string %s) (pair %q (bytes %b) (bool %f))))',
           'set nat', 'map string int', 'map (pair int int) (option bytes)', 'pair (list int) (map nat bool) (option unit) (or string int)']
TYPES_T = ['pair int (pair nat (pair string (pair bytes (pair bool unit))))', 'list (list (option (pair int int int int)))', 'map int (map string (pair nat nat nat nat))']
UNPACK_TYPES = ['int', 'string', 'pair int nat', 'option bool', 'list int', 'pair int nat nat nat']


def sym_pack(P, ex):
    from ref import michbin
    from vf import bvx

    ty = mich.T(P['type'])
    ex.int_backend = 'bv'
    ex._bv_ints = 0
    with mbv.env(forge=True):
        v = mbv.sym_value(ex, ty, 'v', P['maxlen'], P['maxcoll'])
        try:
            out = mich.run_instr(mich.I({'prim': 'PACK'}), [v])
        except mich.Failed as e:
            ex.fail_here(f'PACK failed: {e}')
        packed = out[0].value
        ref = michbin.encode(mbv.ref_micheline(v, 'optimized'))
        exp = bvx.SymBytes([5] + list(ref.items if isinstance(ref, bvx.SymBytes) else ref))
        ex.check(packed == exp, 'PACK = 0x05 || canonical binary Micheline of the optimized rendering')
        back = mich.run_instr(mich.I({'prim': 'UNPACK', 'args': [ty.as_micheline_expr()]}), [out[0]])[0]
        if back.item is None:
            ex.fail_here('UNPACK of PACK v returned None')
        ex.check(mich.deq(mich.abstract(back.item), mich.abstract(v)), 'UNPACK (PACK v) = Some v')
        ex.check(mich.type_expr(back) == {'prim': 'option', 'args': [mich.strip_annots(ty.as_micheline_expr())]}, 'type of the UNPACK result')
        if P.get('truncate'):
            items = list(packed.items) if isinstance(packed, bvx.SymBytes) else list(packed)
            for k in range(len(items)):
                pre = bvx._norm_bytes(items[:k])
                r = mich.run_instr(mich.I({'prim': 'UNPACK', 'args': [ty.as_micheline_expr()]}), [mich.mk('bytes', pre)])[0]
                if r.item is not None:
                    try:
                        if k == 0 or items[0] != 5:
                            raise michbin.Reject('no 05')
                        michbin.decode(bvx._norm_bytes(items[1:k]), symbolic_prims=True)
                    except michbin.Reject:
                        ex.fail_here(f'UNPACK accepts PACK v truncated to {k} bytes')
            ex.check(True)


def conc_pack(P, w):
    from ref import michbin

    ty = mich.T(P['type'])
    v = mbv.conc_value(ty, w, 'v')
    try:
        out = mich.run_instr(mich.I({'prim': 'PACK'}), [v])
    except mich.Failed as e:
        return {'ok': False, 'observed': str(e), 'value': repr(v)}
    packed = out[0].value
    exp = b'\x05' + michbin.encode(mbv.ref_micheline(v, 'optimized'))
    back = mich.run_instr(mich.I({'prim': 'UNPACK', 'args': [ty.as_micheline_expr()]}), [out[0]])[0]
    ok = packed == exp and back.item is not None and mich.abstract(back.item) == mich.abstract(v)
    res = {'ok': ok, 'value': repr(v), 'observed': {'packed': packed.hex(), 'unpacked': repr(back)}, 'expected': exp.hex()}
    if ok and P.get('truncate'):
        for k in range(len(packed)):
            r = mich.run_instr(mich.I({'prim': 'UNPACK', 'args': [ty.as_micheline_expr()]}), [mich.mk('bytes', packed[:k])])[0]
            if r.item is not None:
                try:
                    if k == 0:
                        raise michbin.Reject('')
                    michbin.decode(packed[1:k])
                except michbin.Reject:
                    res['ok'] = False
                    res['observed']['accepted_truncation'] = packed[:k].hex()
    return res


def sym_unpack_buffer(P, ex):
    """UNPACK returns Some only for valid binary Micheline; the value it returns packs back to an encoding of the same expression."""
    from ref import michbin
    from vf import bvx

    ty = mich.T(P['type'])
    n = P['n']
    with mbv.env(forge=True):
        data = ex.bytes('data', n)
        if P.get('tail'):
            data = bvx.SymBytes(list(data.items) + list(P['tail']))
        buf = bvx.SymBytes([5] + list(data.items))
        r = mich.run_instr(mich.I({'prim': 'UNPACK', 'args': [ty.as_micheline_expr()]}), [mich.mk('bytes', buf)])[0]
        if r.item is None:
            ex.check(True)
            return
        try:
            michbin.decode(data, symbolic_prims=True)
        except michbin.Reject:
            ex.fail_here('UNPACK returns Some for bytes that are not valid binary Micheline')
        ex.check(True)


def sym_unpack_length(P, ex):
    """PACK v with the low byte of one 4-byte length prefix perturbed by a symbolic non-zero delta: UNPACK must return None
    unless the perturbed bytes are valid binary Micheline for the reference decoder."""
    from ref import michbin
    from vf import bvx

    ty = mich.T(P['type'])
    ex.int_backend = 'bv'
    ex._bv_ints = 0
    with mbv.env(forge=True):
        v = mbv.sym_value(ex, ty, 'v', P['maxlen'], P['maxcoll'])
        packed = mich.run_instr(mich.I({'prim': 'PACK'}), [v])[0].value
        items = list(packed.items) if isinstance(packed, bvx.SymBytes) else list(packed)
        off = P['offset']
        if off >= len(items):
            raise bvx.Abort()
        d = ex.byte('delta')
        ex.assume(d != 0)
        items[off] = (items[off] + d) & 0xFF
        mut = bvx.SymBytes(items)
        r = mich.run_instr(mich.I({'prim': 'UNPACK', 'args': [ty.as_micheline_expr()]}), [mich.mk('bytes', mut)])[0]
        if r.item is None:
            ex.check(True)
            return
        try:
            michbin.decode(bvx._norm_bytes(items[1:]), symbolic_prims=True)
        except michbin.Reject:
            ex.fail_here('UNPACK returns Some for bytes whose length prefix is inconsistent')
        ex.check(True)


def conc_unpack_length(P, w):
    from ref import michbin

    ty = mich.T(P['type'])
    v = mbv.conc_value(ty, w, 'v')
    packed = bytearray(mich.run_instr(mich.I({'prim': 'PACK'}), [v])[0].value)
    off = P['offset']
    if off >= len(packed):
        return {'ok': True, 'note': 'offset beyond the encoding'}
    packed[off] = (packed[off] + int(w['delta'])) & 0xFF
    r = mich.run_instr(mich.I({'prim': 'UNPACK', 'args': [ty.as_micheline_expr()]}), [mich.mk('bytes', bytes(packed))])[0]
    if r.item is None:
        return {'ok': True, 'observed': 'None'}
    try:
        michbin.decode(bytes(packed[1:]))
    except michbin.Reject as e:
        return {'ok': False, 'data': bytes(packed).hex(), 'observed': repr(r), 'expected': f'None ({e})'}
    except michbin.OutsideClaim:
        pass
    return {'ok': True, 'observed': repr(r)}


def conc_unpack_buffer(P, w):
    from ref import michbin

    ty = mich.T(P['type'])
    data = bytes(w['data']) + bytes(P.get('tail', []))
    r = mich.run_instr(mich.I({'prim': 'UNPACK', 'args': [ty.as_micheline_expr()]}), [mich.mk('bytes', b'\x05' + data)])[0]
    if r.item is None:
        return {'ok': True, 'observed': 'None'}
    try:
        michbin.decode(data)
    except michbin.Reject as e:
        return {'ok': False, 'data': data.hex(), 'observed': repr(r), 'expected': f'None ({e})'}
    except michbin.OutsideClaim:
        pass
    return {'ok': True, 'observed': repr(r)}


def sym_no_05(P, ex):
    from vf import bvx

    ty = mich.T('int')
    with mbv.env(forge=True):
        data = ex.bytes('data', P['n'])
        ex.assume(data[0] != 5)
        r = mich.run_instr(mich.I({'prim': 'UNPACK', 'args': [ty.as_micheline_expr()]}), [mich.mk('bytes', data)])[0]
        ex.check(r.item is None, 'UNPACK of bytes not starting with 0x05 is None')
    del bvx


def conc_no_05(P, w):
    ty = mich.T('int')
    r = mich.run_instr(mich.I({'prim': 'UNPACK', 'args': [ty.as_micheline_expr()]}), [mich.mk('bytes', bytes(w['data']))])[0]
    return {'ok': r.item is None, 'observed': repr(r)}


# ---- base58-rendered leaves -------------------------------------------------------------------------
DOMAIN = [('address', 'tz1', None), ('address', 'KT1', None), ('address', 'KT1', 'foo'), ('address', 'sr1', None), ('key_hash', 'tz1', None),
          ('key_hash', 'tz4', None), ('key', 'edpk', None), ('key', 'p2pk', None), ('key', 'BLpk', None), ('signature', 'sig', None), ('chain_id', 'Net', None)]
LAYOUT = {'address': lambda k, pl, ep: [{'tz1': 0, 'tz2': 0, 'tz3': 0, 'tz4': 0, 'KT1': 1, 'sr1': 3}[k]] + ([{'tz1': 0, 'tz2': 1, 'tz3': 2, 'tz4': 3}[k]] if k.startswith('tz') else []) + pl + ([] if k.startswith('tz') else [0]) + list((ep or '').encode()),
          'key_hash': lambda k, pl, ep: [{'tz1': 0, 'tz2': 1, 'tz3': 2, 'tz4': 3}[k]] + pl,
          'key': lambda k, pl, ep: [{'edpk': 0, 'sppk': 1, 'p2pk': 2, 'BLpk': 3}[k]] + pl,
          'signature': lambda k, pl, ep: pl, 'chain_id': lambda k, pl, ep: pl}


def sym_pack_domain(P, ex):
    from harness import C10
    from ref import michbin
    from vf import bvx

    tname, kind, ep = P['type'], P['kind'], P.get('entrypoint')
    F = mbv.forge_module()
    with C10.boundary(ex, [(kind, None)]) as b, bvx.shadowed(*mbv.modules(), extra={'forge_micheline': F.forge_micheline, 'unforge_micheline': F.unforge_micheline}):
        text = b.text(kind) + (('%' + ep) if ep else '')
        payload = b.payload(kind)
        cls = C10._type(tname)
        v = cls.from_value(text)
        packed = mich.run_instr(mich.I({'prim': 'PACK'}), [v])[0]
        raw = LAYOUT[tname](kind, list(payload.items), ep)
        exp = michbin.encode({'bytes': bvx.SymHex(bvx.SymBytes(raw))})
        ex.check(packed.value == bvx.SymBytes([5] + list(exp.items)), f'PACK {tname} = 05 0a <len> <binary form>')
        b.recorded.clear()
        back = mich.run_instr(mich.I({'prim': 'UNPACK', 'args': [{'prim': tname}]}), [packed])[0]
        if back.item is None:
            ex.fail_here('UNPACK of PACK v returned None')
        ex.check(C10._kind_of(back.item.value) == kind, 'kind survives PACK/UNPACK')
        ex.check(b.recorded and b.recorded[-1][2] == payload, 'payload survives PACK/UNPACK')


def conc_pack_domain(P, w):
    import base58

    from harness import C10

    tname, kind, ep = P['type'], P['kind'], P.get('entrypoint')
    h, L, Pb, nn = C10._row(kind)
    payload = bytes(w.get(f'payload:{kind}', bytes(nn)))
    text = base58.b58encode_check(Pb + payload).decode() + (('%' + ep) if ep else '')
    v = C10._type(tname).from_value(text)
    try:
        packed = mich.run_instr(mich.I({'prim': 'PACK'}), [v])[0]
        back = mich.run_instr(mich.I({'prim': 'UNPACK', 'args': [{'prim': tname}]}), [packed])[0]
    except mich.Failed as e:
        return {'ok': False, 'value': text, 'observed': str(e)}
    raw = bytes(LAYOUT[tname](kind, list(payload), ep))
    exp = b'\x05\x0a' + len(raw).to_bytes(4, 'big') + raw
    ok = packed.value == exp and back.item is not None and back.item.value == text
    return {'ok': ok, 'value': text, 'observed': {'packed': packed.value.hex(), 'unpacked': repr(back)}, 'expected': exp.hex()}


def obligations(tier):
    q = tier == 'quick'
    t = 120 if q else 1200
    maxlen, maxcoll = (2, 2)        # the thorough tier adds deeper types, not larger values: larger sizes did not finish within 40 minutes
    obs = []
    for s in TYPES_Q:        # TYPES_T (deeper types) did not finish within 15 minutes even at the smallest sizes: outside both tiers
        trunc = s in ('int', 'string', 'pair int nat', 'pair int nat string bytes', 'option int', 'list int', 'map string int')
        ml, mc = maxlen, maxcoll
        if s.startswith('pair (list') or s.startswith('list (pair') or s.startswith('map (pair'):
            ml, mc = 1, (1 if q else 2)
        elif not q and any(k in s for k in ('list', 'set', 'map')):
            # thorough tier sized by wall time: collection types keep the quick sizes except the flat ones (3 elements)
            ml, mc = 2, 2
        if not q and s in TYPES_T:
            ml, mc = 1, 1
        obs.append(Ob(f'pack/{s}', 'bvx', sym_pack, conc_pack, {'type': s, 'maxlen': ml, 'maxcoll': mc, 'truncate': trunc}, timeout=t, opts={'W': 96},
                      bounds=f'all values of {s}: first int leaf |v| < 2^86, further int leaves |v| < 2^13, strings/bytes <= {ml}, collections <= {mc}' + ('; every proper prefix of PACK v' if trunc else ''),
                      targets=TARGETS))
    for s in UNPACK_TYPES:
        for n in (1, 2, 3):
            obs.append(Ob(f'unpack-buffer/{s}/n={n}', 'bvx', sym_unpack_buffer, conc_unpack_buffer, {'type': s, 'n': n}, timeout=t if n < 4 else 3 * t, opts={'W': 64},
                          bounds=f'UNPACK {s} of 0x05 followed by every byte string of length {n}', targets=TARGETS))
    for s, lname, tail in (('pair int int', 'args=[1,2]', [0, 0, 0, 4, 0, 1, 0, 2, 0, 0, 0, 0]), ('unit', 'no-args', [0, 0, 0, 0, 0, 0, 0, 0]),
                           ('option int', 'args=[1]', [0, 0, 0, 2, 0, 1, 0, 0, 0, 0])):
        obs.append(Ob(f'unpack-buffer/{s}/any-tag+generic-layout/{lname}', 'bvx', sym_unpack_buffer, conc_unpack_buffer, {'type': s, 'n': 2, 'tail': tail}, timeout=t, opts={'W': 64},
                      bounds=f'UNPACK {s} of 0x05, a symbolic node tag, a symbolic primitive byte and the fixed generic-primitive layout', targets=TARGETS))
    # 05 02 LLLL ...: the low byte of the outer length prefix is at offset 5; for a nested list the first inner prefix low byte is at offset 10
    for s, off in (('list nat', 5), ('list (list nat)', 5), ('list (list nat)', 10), ('pair nat nat nat nat', 5), ('list (pair nat string)', 5), ('map nat nat', 5)):
        obs.append(Ob(f'unpack-length/{s}@{off}', 'bvx', sym_unpack_length, conc_unpack_length, {'type': s, 'offset': off, 'maxlen': 1, 'maxcoll': 2}, timeout=t, opts={'W': 64},
                      bounds=f'PACK of every value of {s} (collections <= 2, first int < 2^54), length prefix byte at offset {off} perturbed by every non-zero delta', targets=TARGETS))
    obs.append(Ob('unpack/no-05-prefix', 'bvx', sym_no_05, conc_no_05, {'n': 3}, timeout=t, opts={'W': 64}, bounds='every 3-byte string not starting with 0x05', targets=TARGETS))
    for tname, kind, ep in DOMAIN:
        obs.append(Ob(f'pack-domain/{tname}/{kind}/{ep or "-"}', 'bvx', sym_pack_domain, conc_pack_domain, {'type': tname, 'kind': kind, 'entrypoint': ep},
                      timeout=t, opts={'W': 64}, bounds=f'every payload of {kind}', targets=TARGETS))
    return obs
