"""bvx-side helpers for Michelson values: symbolic value construction per type, reference order,
shadowing of the type/instruction modules."""
from __future__ import annotations

import contextlib
from typing import Any, List

from harness import mich

MUTEZ_MAX = (1 << 63) - 1


def modules():
    import pytezos.michelson.instructions.adt as i_adt
    import pytezos.michelson.instructions.arithmetic as i_ar
    import pytezos.michelson.instructions.boolean as i_bo
    import pytezos.michelson.instructions.compare as i_cmp
    import pytezos.michelson.instructions.control as i_ctl
    import pytezos.michelson.instructions.crypto as i_cry
    import pytezos.michelson.instructions.tezos as i_tez
    import pytezos.michelson.instructions.generic as i_gen
    import pytezos.michelson.instructions.stack as i_stk
    import pytezos.michelson.instructions.struct as i_str
    import pytezos.michelson.instructions.ticket as i_tic
    import pytezos.michelson.micheline as mm
    import pytezos.michelson.types.base as t_base
    import pytezos.michelson.types.core as t_core
    import pytezos.michelson.types.domain as t_dom
    import pytezos.michelson.types.list as t_list
    import pytezos.michelson.types.map as t_map
    import pytezos.michelson.types.option as t_opt
    import pytezos.michelson.types.pair as t_pair
    import pytezos.michelson.types.set as t_set
    import pytezos.michelson.types.sum as t_sum
    import pytezos.michelson.types.ticket as t_tic

    return [i_adt, i_ar, i_bo, i_cmp, i_ctl, i_cry, i_tez, i_gen, i_stk, i_str, i_tic, mm, t_base, t_core, t_dom, t_list, t_map, t_opt,
            t_pair, t_set, t_sum, t_tic]


class _DistinctCount:
    """len(set(items)) for items compared with __eq__ (hash consistency of the Michelson value classes assumed)."""

    def __init__(self, items):
        self.items = list(items)

    def _all_distinct(self):
        from vf import bvx

        conds = []
        for i in range(len(self.items)):
            for j in range(i + 1, len(self.items)):
                e = self.items[i] == self.items[j]
                conds.append(bvx.sym_not(e))
        return bvx.sym_and(*conds) if conds else True

    def __eq__(self, n):
        if n == len(self.items):
            return self._all_distinct()
        raise NotImplementedError('distinct count compared with something else than the list length')

    def __ne__(self, n):
        from vf import bvx

        return bvx.sym_not(self.__eq__(n))


class _SymSet:
    def __init__(self, items=()):
        self.items = list(items)


def _set(items=()):
    items = list(items)
    try:
        return set(items)
    except TypeError:       # unhashable proxies inside
        return _SymSet(items)


def _len(x):
    if isinstance(x, _SymSet):
        return _DistinctCount(x.items)
    return len(x)


_FORGE = None


def forge_module():
    """pytezos.michelson.forge re-instantiated from the current source for proxy execution; symbolic primitive tags are
    concretised (forking) so that typed parsing sees ordinary primitive names."""
    global _FORGE
    if _FORGE is None:
        from vf import bvx

        F = bvx.load_module('/repo/src/pytezos/michelson/forge.py', 'bvx_forge_typed')
        real_int = dict(F.prim_int)

        class PrimInt:
            def __getitem__(self, tag):
                if isinstance(tag, bvx.SymInt):
                    tag = tag.__index__()
                return real_int[tag]

        F.prim_int = PrimInt()
        _FORGE = F
    return _FORGE


@contextlib.contextmanager
def env(forge=False):
    """Run Michelson type/instruction code on bvx proxies."""
    from vf import bvx

    mods = modules()
    import pytezos.michelson.types.map as t_map
    import pytezos.michelson.types.set as t_set

    extra = {}
    if forge:
        F = forge_module()
        extra = {'forge_micheline': F.forge_micheline, 'unforge_micheline': F.unforge_micheline}
    with bvx.shadowed(*mods, extra=extra), bvx.silenced():
        saved = []
        for m in (t_set, t_map):
            for n, v in (('set', _set), ('len', _len)):
                saved.append((m, n, m.__dict__.get(n, None)))
                setattr(m, n, v)
        try:
            yield
        finally:
            for m, n, v in saved:
                if v is None:
                    delattr(m, n)
                else:
                    setattr(m, n, v)


# ---- symbolic values ----------------------------------------------------------------------------
def sym_value(ex, ty, name: str, maxlen: int = 2, maxcoll: int = 2):
    """A symbolic value of Michelson type class `ty` (forks on lengths / option / or tags)."""
    from pytezos.michelson import types as t
    from vf import bvx

    p = ty.prim
    if p in ('int', 'nat', 'mutez', 'timestamp'):
        if getattr(ex, 'int_backend', 'int') == 'bv':
            v = ex.bv(name)
            k = getattr(ex, '_bv_ints', 0)
            ex._bv_ints = k + 1
            # the first integer leaf ranges over the full width, further ones over two Zarith groups (keeps the path tree small)
            lim = 1 << ((ex.W - 10) if k == 0 else 13)
            ex.assume((v > -lim) & (v < lim))
        else:
            v = ex.int(name)
        if p == 'nat':
            ex.assume(v >= 0)
        elif p == 'mutez':
            ex.assume((v >= 0) & (v <= MUTEZ_MAX))
        return ty(v)
    if p == 'bool':
        return ty(ex.bool(name))
    if p == 'unit':
        return ty()
    if p in ('string', 'bytes'):
        n = _choose(ex, name + '#len', 0, maxlen)
        b = ex.bytes(name, n) if n else bvx.SymBytes([])
        if p == 'string':
            for it in b.items:
                ex.assume((it >= 0x20) & (it < 0x7F))
            return ty(bvx.SymStr(b))
        return ty(b)
    if p == 'pair':
        return ty(tuple(sym_value(ex, a, f'{name}.{i}', maxlen, maxcoll) for i, a in enumerate(ty.args)))
    if p == 'option':
        if _choose(ex, name + '#some', 0, 1):
            return ty(sym_value(ex, ty.args[0], name + '.some', maxlen, maxcoll))
        return ty(None)
    if p == 'or':
        from pytezos.michelson.types.base import Undefined

        if _choose(ex, name + '#right', 0, 1):
            return ty((Undefined, sym_value(ex, ty.args[1], name + '.R', maxlen, maxcoll)))
        return ty((sym_value(ex, ty.args[0], name + '.L', maxlen, maxcoll), Undefined))
    if p == 'list':
        n = _choose(ex, name + '#n', 0, maxcoll)
        return ty([sym_value(ex, ty.args[0], f'{name}[{i}]', maxlen, maxcoll) for i in range(n)])
    if p == 'set':
        n = _choose(ex, name + '#n', 0, maxcoll)
        items = [sym_value(ex, ty.args[0], f'{name}[{i}]', maxlen, maxcoll) for i in range(n)]
        for i in range(n - 1):
            ex.assume(ref_lt(items[i], items[i + 1]))     # representation invariant: strictly increasing
        return ty(items)
    if p == 'map':
        n = _choose(ex, name + '#n', 0, maxcoll)
        items = [(sym_value(ex, ty.args[0], f'{name}[{i}].k', maxlen, maxcoll),
                  sym_value(ex, ty.args[1], f'{name}[{i}].v', maxlen, maxcoll)) for i in range(n)]
        for i in range(n - 1):
            ex.assume(ref_lt(items[i][0], items[i + 1][0]))
        return ty(items)
    raise NotImplementedError(f'symbolic value of type {p}')


def _choose(ex, name, lo, hi) -> int:
    """A small integer chosen by the solver and concretised by forking."""
    v = ex.bv(name)
    ex.assume((v >= lo) & (v <= hi))
    return ex.realize(v.e)


def conc_value(ty, w: dict, name: str):
    """Rebuild the concrete value from a witness (names as produced by sym_value)."""
    from pytezos.michelson.types.base import Undefined

    p = ty.prim
    if p in ('int', 'nat', 'mutez', 'timestamp'):
        return ty(int(w[name]))
    if p == 'bool':
        return ty(bool(w[name]))
    if p == 'unit':
        return ty()
    if p in ('string', 'bytes'):
        n = int(w[name + '#len'])
        b = bytes(w[name]) if n else b''
        return ty(b.decode() if p == 'string' else b)
    if p == 'pair':
        return ty(tuple(conc_value(a, w, f'{name}.{i}') for i, a in enumerate(ty.args)))
    if p == 'option':
        return ty(conc_value(ty.args[0], w, name + '.some') if int(w[name + '#some']) else None)
    if p == 'or':
        if int(w[name + '#right']):
            return ty((Undefined, conc_value(ty.args[1], w, name + '.R')))
        return ty((conc_value(ty.args[0], w, name + '.L'), Undefined))
    if p == 'list' or p == 'set':
        n = int(w[name + '#n'])
        return ty([conc_value(ty.args[0], w, f'{name}[{i}]') for i in range(n)])
    if p == 'map':
        n = int(w[name + '#n'])
        return ty([(conc_value(ty.args[0], w, f'{name}[{i}].k'), conc_value(ty.args[1], w, f'{name}[{i}].v')) for i in range(n)])
    raise NotImplementedError(p)


# ---- reference order (Michelson comparable types) -------------------------------------------------
def ref_cmp(a, b):
    """Reference comparison of two values of the same comparable type: returns (lt, eq) truth values."""
    from pytezos.michelson import types as t
    from vf import bvx

    if isinstance(a, t.BoolType):
        x, y = a.value, b.value
        return bvx.sym_and(bvx.sym_not(x), y), (x == y)
    if isinstance(a, t.IntType):
        return a.value < b.value, a.value == b.value
    if isinstance(a, (t.StringType, t.BytesType)):
        return _seq_lt(a.value, b.value), a.value == b.value
    if isinstance(a, t.UnitType):
        return False, True
    if isinstance(a, t.PairType):
        lt, eq = False, True
        for x, y in zip(reversed(a.items), reversed(b.items)):
            l1, e1 = ref_cmp(x, y)
            lt = bvx.sym_or(l1, bvx.sym_and(e1, lt))
            eq = bvx.sym_and(e1, eq)
        return lt, eq
    if isinstance(a, t.OptionType):
        if a.item is None and b.item is None:
            return False, True
        if a.item is None:
            return True, False
        if b.item is None:
            return False, False
        return ref_cmp(a.item, b.item)
    if isinstance(a, t.OrType):
        al, bl = a.is_left(), b.is_left()
        if al and not bl:
            return True, False
        if bl and not al:
            return False, False
        return ref_cmp(a.items[0], b.items[0]) if al else ref_cmp(a.items[1], b.items[1])
    raise NotImplementedError(type(a).__name__)


def ref_lt(a, b):
    return ref_cmp(a, b)[0]


def _seq_lt(x, y):
    from vf import bvx

    xi = _items(x)
    yi = _items(y)
    if all(isinstance(i, int) for i in xi + yi):
        return xi < yi
    return bvx.SymBool(bvx._lex_lt(xi, yi))


def _items(x):
    from vf import bvx

    if isinstance(x, bvx.SymStr):
        return list(x.b.items)
    if isinstance(x, bvx.SymBytes):
        return list(x.items)
    if isinstance(x, str):
        return list(x.encode())
    return list(x)


def conc_cmp(a, b) -> int:
    """Reference comparison on concrete values -> -1/0/1."""
    lt, eq = ref_cmp(a, b)
    return -1 if lt else (0 if eq else 1)


# ---- reference rendering of values as Micheline (independent of pytezos' to_micheline_value) --------
def comb_leaves(v):
    """Right-spine flattening of a pair value (annotations are irrelevant in Tezos)."""
    from pytezos.michelson import types as t

    out = [v.items[0]]
    r = v.items[1]
    while isinstance(r, t.PairType):
        out.append(r.items[0])
        r = r.items[1]
    out.append(r)
    return out


def _dec(x):
    from vf import bvx

    if isinstance(x, (bvx.SymInt, bvx.IntZ)):
        return bvx.DecStr(x)
    return str(x)


def _hexs(b):
    from vf import bvx

    if isinstance(b, bvx.SymBytes):
        return b.hex()
    return bytes(b).hex()


def ref_micheline(v, mode='optimized', dom=None):
    """mode: 'optimized' (PACK layout: combs of >= 4 leaves are sequences), 'legacy_optimized' (nested binary pairs),
    'readable' (n-ary Pair). `dom(v, mode)` renders base58-rendered types."""
    from pytezos.michelson import types as t

    if isinstance(v, t.BoolType):
        from vf import bvx

        if isinstance(v.value, bvx.SymBool):
            return {'prim': 'True'} if bool(v.value) else {'prim': 'False'}
        return {'prim': 'True' if v.value else 'False'}
    if isinstance(v, t.TimestampType) and mode == 'readable':
        raise NotImplementedError('readable timestamps are handled by the caller')
    if dom is not None and v.prim in ('address', 'key', 'key_hash', 'signature', 'chain_id', 'contract'):
        return dom(v, mode)
    if isinstance(v, t.IntType):
        return {'int': _dec(v.value)}
    if isinstance(v, t.StringType):
        return {'string': v.value}
    if isinstance(v, t.BytesType):
        return {'bytes': _hexs(v.value)}
    if isinstance(v, t.UnitType):
        return {'prim': 'Unit'}
    if isinstance(v, t.PairType):
        if mode == 'legacy_optimized':
            return {'prim': 'Pair', 'args': [ref_micheline(i, mode, dom) for i in v.items]}
        leaves = [ref_micheline(i, mode, dom) for i in comb_leaves(v)]
        if mode == 'readable' or len(leaves) == 2:
            return {'prim': 'Pair', 'args': leaves}
        if len(leaves) == 3:
            return {'prim': 'Pair', 'args': [leaves[0], {'prim': 'Pair', 'args': leaves[1:]}]}
        return leaves
    if isinstance(v, t.OptionType):
        return {'prim': 'None'} if v.item is None else {'prim': 'Some', 'args': [ref_micheline(v.item, mode, dom)]}
    if isinstance(v, t.OrType):
        if v.is_left():
            return {'prim': 'Left', 'args': [ref_micheline(v.items[0], mode, dom)]}
        return {'prim': 'Right', 'args': [ref_micheline(v.items[1], mode, dom)]}
    if isinstance(v, (t.ListType, t.SetType)):
        return [ref_micheline(i, mode, dom) for i in v.items]
    if isinstance(v, t.MapType):
        return [{'prim': 'Elt', 'args': [ref_micheline(k, mode, dom), ref_micheline(x, mode, dom)]} for k, x in v.items]
    raise NotImplementedError(v.prim)
