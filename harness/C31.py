"""C31 Operation list and payload hashes follow the Tezos Merkle construction."""
from vf.core import Ob

TARGETS = ['pytezos.crypto.hash._hash_tuple', 'pytezos.crypto.hash._reduce_operation_hashes', 'pytezos.crypto.hash.operation_list_hash',
           'pytezos.crypto.hash.operation_list_list_hash', 'pytezos.crypto.hash.block_payload_hash']
STUBS = ['blake2b(x, digest_size=32).digest() -> uninterpreted function H(x); byte concatenation -> uninterpreted cat(x, y) with cat(x, empty) = x',
         'base58_decode/base58_encode in crypto.hash -> tagged identity (kind prefix recorded)']
BOUNDS = {'quick': 'list lengths 0..17, every leaf a free constant (all hash values); lists of 2..5 hashes with repeated entries (every pattern over two hashes); lists of lists with every inner length <= 3 and outer length <= 5',
          'thorough': 'list lengths 0..65; lists of lists with inner length <= 4 and outer length <= 6'}
OUTSIDE = ['Blake2b itself, Base58Check (C09)', 'lengths beyond the bound']
ASSUMPTIONS = ['reference root: leaves H(x_i), padded to the next power of two with copies of the last leaf, node = H(left || right), empty list -> H(empty), single x -> H(x)']


class Term:
    """A byte string known only as a z3 term of an uninterpreted sort."""

    def __init__(self, e):
        self.e = e

    def __add__(self, o):
        if isinstance(o, (bytes, bytearray)):
            if len(o) == 0:
                return self
            return Term(_cat(self.e, _const(bytes(o))))
        return Term(_cat(self.e, o.e))

    def __radd__(self, o):
        if isinstance(o, (bytes, bytearray)):
            if len(o) == 0:
                return self
            return Term(_cat(_const(bytes(o)), self.e))
        return NotImplemented


_S = {}


def _sorts():
    import z3

    if not _S:
        B = z3.DeclareSort('Bytes')
        _S.update(B=B, H=z3.Function('H', B, B), cat=z3.Function('cat', B, B, B), empty=z3.Const('empty', B), consts={})
    return _S


def _cat(a, b):
    return _sorts()['cat'](a, b)


def _H(a):
    return _sorts()['H'](a)


def _const(b: bytes):
    import z3

    s = _sorts()
    if b == b'':
        return s['empty']
    if b not in s['consts']:
        s['consts'][b] = z3.Const('c_' + b.hex(), s['B'])
    return s['consts'][b]


class _Digest:
    def __init__(self, t):
        self.t = t

    def digest(self):
        return self.t


def fake_blake2b(data=b'', digest_size=32, **kw):
    assert digest_size == 32
    if isinstance(data, (bytes, bytearray)):
        return _Digest(Term(_H(_const(bytes(data)))))
    return _Digest(Term(_H(data.e)))


class Text:
    """base58 text of a hash: only the kind prefix and the raw term are known."""

    def __init__(self, raw, prefix):
        self.raw, self.prefix = raw, prefix

    def encode(self):
        return self

    def decode(self):
        return self

    # two texts of the same hash are the same string
    def __eq__(self, o):
        return isinstance(o, Text) and self.prefix == o.prefix and self.raw.e.eq(o.raw.e)

    def __hash__(self):
        return hash((self.prefix, self.raw.e.hash()))


def fake_b58decode(x):
    return x.raw


def fake_b58encode(raw, prefix):
    return Text(raw, prefix)


def _const_method(const, name, *args, **kw):
    if name == 'join' and const == b'':
        parts = list(args[0])
        acc = None
        for p in parts:
            acc = p if acc is None else acc + p
        return acc if acc is not None else b''
    return getattr(const, name)(*args, **kw)


class Round:
    def __init__(self, t):
        self.t = t

    def to_bytes(self, n, order):
        assert (n, order) == (4, 'big')
        return self.t


_MOD = None


def load():
    global _MOD
    if _MOD is None:
        from vf import bvx

        M = bvx.load_module('/repo/src/pytezos/crypto/hash.py', 'vf_hash', extra={'__bvx_const_method__': _const_method})
        for k in ('int', 'bytes', 'str', 'bool', 'isinstance', 'bytearray', 'divmod'):
            M.__dict__.pop(k, None)     # no proxies needed here: plain builtins
        M.blake2b = fake_blake2b
        M.base58_decode = fake_b58decode
        M.base58_encode = fake_b58encode
        _MOD = M
    return _MOD


# ---- reference ---------------------------------------------------------------------------------
def ref_root(leaves, H, node, empty_hash):
    if len(leaves) == 0:
        return empty_hash
    if len(leaves) == 1:
        return H(leaves[0])
    level = [H(x) for x in leaves]
    size = 1
    while size < len(level):
        size *= 2
    level = level + [level[-1]] * (size - len(level))
    while len(level) > 1:
        level = [node(level[i], level[i + 1]) for i in range(0, len(level), 2)]
    return level[0]


def _sym_ref(leaves):
    return ref_root([x.e for x in leaves], _H, lambda a, b: _H(_cat(a, b)), _H(_sorts()['empty']))


def _leaves(tag, n):
    import z3

    B = _sorts()['B']
    return [Term(z3.Const(f'{tag}{i}', B)) for i in range(n)]


def sym_list(P, ctx):
    M = load()
    for n in range(P['lo'], P['hi'] + 1):
        xs = _leaves('x', n)
        got = M.operation_list_hash([Text(x, b'o') for x in xs])
        if not isinstance(got, Text) or got.prefix != b'Lo':
            ctx.fail('operation_list_hash renders with the wrong kind', {'n': n, 'fn': 'list'})
        ctx.unsat(f'operation_list_hash, {n} hashes', got.raw.e != _sym_ref(xs), {}, validate=lambda w, n=n: not conc_list({'fn': 'list'}, {'n': n})['ok'])
        pred = _leaves('pred', 1)[0]
        rnd = _leaves('round', 1)[0]
        ph = M.block_payload_hash(Text(pred, b'B'), Round(rnd), [Text(x, b'o') for x in xs])
        if not isinstance(ph, Text) or ph.prefix != b'vh':
            ctx.fail('block_payload_hash renders with the wrong kind', {'n': n, 'fn': 'payload'})
        exp = _H(_cat(_cat(pred.e, rnd.e), _sym_ref(xs)))
        ctx.unsat(f'block_payload_hash, {n} hashes', ph.raw.e != exp, {}, validate=lambda w, n=n: not conc_list({'fn': 'payload'}, {'n': n})['ok'])


def sym_repeats(P, ctx):
    """Lists in which the same hash occurs several times (every pattern over a pool of 2 distinct hashes)."""
    import itertools

    M = load()
    pool = _leaves('p', 2)
    pred, rnd = _leaves('pred', 1)[0], _leaves('round', 1)[0]
    for n in range(2, P['n'] + 1):
        for pat in itertools.product((0, 1), repeat=n):
            if pat[0] != 0 or len(set(pat)) == n:
                continue
            xs = [pool[i] for i in pat]
            name = ''.join('ab'[i] for i in pat)
            got = M.operation_list_hash([Text(x, b'o') for x in xs])
            ctx.unsat(f'operation_list_hash, pattern {name}', got.raw.e != _sym_ref(xs), {}, validate=lambda w, pat=pat: not conc_repeats({'fn': 'list'}, {'pattern': list(pat)})['ok'])
            ph = M.block_payload_hash(Text(pred, b'B'), Round(rnd), [Text(x, b'o') for x in xs])
            exp = _H(_cat(_cat(pred.e, rnd.e), _sym_ref(xs)))
            ctx.unsat(f'block_payload_hash, pattern {name}', ph.raw.e != exp, {}, validate=lambda w, pat=pat: not conc_repeats({'fn': 'payload'}, {'pattern': list(pat)})['ok'])
            got2 = M.operation_list_list_hash([[Text(x, b'o') for x in xs], [Text(x, b'o') for x in xs]])
            exp2 = _sym_ref([Term(_sym_ref(xs)), Term(_sym_ref(xs))])
            ctx.unsat(f'operation_list_list_hash, twice pattern {name}', got2.raw.e != exp2, {}, validate=lambda w, pat=pat: not conc_repeats({'fn': 'll'}, {'pattern': list(pat)})['ok'])


def conc_repeats(P, w):
    from hashlib import blake2b

    from pytezos.crypto import hash as Hm
    from pytezos.crypto.encoding import base58_decode, base58_encode

    pat = w.get('pattern')
    fn = w.get('fn') or P.get('fn')
    if pat is None:
        import re

        q = w['query']
        pat = [0 if c == 'a' else 1 for c in re.search(r'pattern ([ab]+)', q).group(1)]
        fn = 'payload' if 'payload' in q else ('ll' if 'list_list' in q else 'list')
    pool = _mk_leaves(2, 5)
    xs = [pool[i] for i in pat]
    texts = [base58_encode(x, b'o').decode() for x in xs]
    if fn == 'list':
        got, exp = base58_decode(Hm.operation_list_hash(texts).encode()), _real_ref(xs)
    elif fn == 'payload':
        pred = _mk_leaves(1, 9)[0]
        got = base58_decode(Hm.block_payload_hash(base58_encode(pred, b'B').decode(), 7, texts).encode())
        exp = blake2b(pred + (7).to_bytes(4, 'big') + _real_ref(xs), digest_size=32).digest()
    else:
        got = base58_decode(Hm.operation_list_list_hash([texts, texts]).encode())
        exp = _real_ref([_real_ref(xs), _real_ref(xs)])
    return {'ok': got == exp, 'pattern': pat, 'fn': fn, 'observed': got.hex(), 'expected': exp.hex()}


def _shape_vars(shape):
    return [_leaves(f'y{i}_', k) for i, k in enumerate(shape)]


def sym_list_list(P, ctx):
    import itertools

    M = load()
    for outer in range(0, P['outer'] + 1):
        for shape in itertools.product(range(0, P['inner'] + 1), repeat=outer):
            if outer > 3 and sum(1 for k in shape if k not in (0, P['inner'])) > 1:
                continue        # keep the family small: long outer lists use extreme inner lengths
            ys = _shape_vars(shape)
            got = M.operation_list_list_hash([[Text(x, b'o') for x in inner] for inner in ys])
            if not isinstance(got, Text) or got.prefix != b'LLo':
                ctx.fail('operation_list_list_hash renders with the wrong kind', {'shape': list(shape)})
            inner_roots = [Term(_sym_ref(inner)) for inner in ys]
            exp = _sym_ref(inner_roots)
            ctx.unsat(f'operation_list_list_hash, shape {list(shape)}', got.raw.e != exp, {},
                      validate=lambda w, shape=shape: not conc_list_list({}, {'shape': list(shape)})['ok'])


# ---- concrete replay with the real Blake2b -------------------------------------------------------
def _real_ref(leaves):
    from hashlib import blake2b

    def H(x):
        return blake2b(x, digest_size=32).digest()

    return ref_root(leaves, H, lambda a, b: H(a + b), H(b''))


def _mk_leaves(n, salt=0):
    from hashlib import sha256

    return [sha256(bytes([salt, i % 256, i // 256])).digest() for i in range(n)]


def conc_list(P, w):
    from hashlib import blake2b

    from pytezos.crypto import hash as Hm
    from pytezos.crypto.encoding import base58_decode, base58_encode

    n = int(w.get('n', 0))
    if 'query' in w and 'n' not in w:
        import re

        n = int(re.search(r'(\d+) hashes', w['query']).group(1))
    fn = w.get('fn') or ('payload' if 'payload' in w.get('query', '') else 'list')
    xs = _mk_leaves(n)
    texts = [base58_encode(x, b'o').decode() for x in xs]
    if fn == 'list':
        got = base58_decode(Hm.operation_list_hash(texts).encode())
        exp = _real_ref(xs)
    else:
        pred = _mk_leaves(1, 9)[0]
        got = base58_decode(Hm.block_payload_hash(base58_encode(pred, b'B').decode(), 7, texts).encode())
        exp = blake2b(pred + (7).to_bytes(4, 'big') + _real_ref(xs), digest_size=32).digest()
    return {'ok': got == exp, 'n': n, 'fn': fn, 'observed': got.hex(), 'expected': exp.hex()}


def conc_list_list(P, w):
    from pytezos.crypto import hash as Hm
    from pytezos.crypto.encoding import base58_decode, base58_encode

    shape = w.get('shape')
    if shape is None:
        import ast
        import re

        shape = ast.literal_eval(re.search(r'shape (\[.*\])', w['query']).group(1))
    ys = [_mk_leaves(k, i + 1) for i, k in enumerate(shape)]
    got = base58_decode(Hm.operation_list_list_hash([[base58_encode(x, b'o').decode() for x in inner] for inner in ys]).encode())
    exp = _real_ref([_real_ref(inner) for inner in ys])
    return {'ok': got == exp, 'shape': shape, 'observed': got.hex(), 'expected': exp.hex()}


def obligations(tier):
    q = tier == 'quick'
    hi = 17 if q else 65
    obs = []
    step = 6 if q else 11
    for lo in range(0, hi + 1, step):
        obs.append(Ob(f'list+payload/n={lo}..{min(lo + step - 1, hi)}', 'smt', sym_list, conc_list, {'lo': lo, 'hi': min(lo + step - 1, hi)},
                      timeout=120 if q else 900, bounds='every list length in the range, all leaves free', targets=TARGETS))
    obs.append(Ob('list-of-lists', 'smt', sym_list_list, conc_list_list, {'outer': 5 if q else 6, 'inner': 3 if q else 4}, timeout=300 if q else 1800,
                  bounds='outer/inner lengths as stated, all leaves free', targets=TARGETS))
    obs.append(Ob('repeated-hashes', 'smt', sym_repeats, conc_repeats, {'n': 5 if q else 7}, timeout=300 if q else 1800,
                  bounds=f'lists of 2..{5 if q else 7} hashes drawn from a pool of two distinct hashes, every pattern with a repetition; also inside a list of lists', targets=TARGETS))
    return obs
