"""Core data structures shared by engines, runner and harnesses."""
from __future__ import annotations

import dataclasses
import fnmatch
import json
import os
from typing import Any, Callable, Dict, List, Optional

ROOT = os.path.dirname(os.path.dirname(os.path.abspath(__file__)))

EXIT_OK = 0
EXIT_VIOLATION = 1
EXIT_HARNESS_ERROR = 3


@dataclasses.dataclass
class Ob:
    """One proof obligation.

    sym(P, ...)       the symbolic harness.  xh: annotated parameters become CrossHair symbolic
                      values, the return value is the property (True = holds).  bvx: sym(P, ex).
                      smt: sym(P) -> list of Query.
    concrete(P, w)    replay of a witness `w` (dict name -> plain Python value) through the plain
                      public API with the real libraries (no stubs, no shims).  Returns a dict with
                      at least {'ok': bool}; ok=False means the violation reproduces.
    """

    name: str
    engine: str
    sym: Callable
    concrete: Optional[Callable] = None
    P: Dict[str, Any] = dataclasses.field(default_factory=dict)
    timeout: float = 30.0
    bounds: str = ''
    targets: List[str] = dataclasses.field(default_factory=list)
    stubs: List[str] = dataclasses.field(default_factory=list)
    # when True the obligation is a lemma other obligations depend on (assume-guarantee)
    lemma: bool = False
    # optional z3 width / extra engine options
    opts: Dict[str, Any] = dataclasses.field(default_factory=dict)


class Skip(Exception):
    """Raised by a harness to signal an input outside the documented precondition."""


def load_known_findings(path: Optional[str] = None) -> List[dict]:
    path = path or os.path.join(ROOT, 'known_findings.jsonl')
    out = []
    if not os.path.exists(path):
        return out
    with open(path) as f:
        for line in f:
            line = line.strip()
            if not line or line.startswith('#'):
                continue
            out.append(json.loads(line))
    return out


def findings_for(findings: List[dict], prop: str, ob_name: str) -> List[dict]:
    res = []
    for f in findings:
        if 'fixed' in f:
            continue
        if f.get('property') != prop:
            continue
        if fnmatch.fnmatchcase(ob_name, f.get('obligation', '*')):
            res.append(f)
    return res


def region_holds(region: str, witness: Dict[str, Any], P: Dict[str, Any]) -> bool:
    """Evaluate a known-finding region on a concrete witness."""
    env = {'P': P, 'w': witness}
    env.update({k: v for k, v in witness.items() if k.isidentifier()})
    try:
        return bool(eval(region, {'__builtins__': __builtins__}, env))
    except Exception:
        return False


def jsonable(x: Any, depth: int = 0) -> Any:
    if depth > 12:
        return repr(x)
    if isinstance(x, (str, int, float, bool)) or x is None:
        if isinstance(x, int) and not isinstance(x, bool) and abs(x) > 2**62:
            return str(x)
        return x
    if isinstance(x, (bytes, bytearray)):
        return {'hex': bytes(x).hex()}
    if isinstance(x, (list, tuple)):
        return [jsonable(i, depth + 1) for i in x]
    if isinstance(x, dict):
        return {str(k): jsonable(v, depth + 1) for k, v in x.items()}
    return repr(x)


def unjson(x: Any) -> Any:
    """Inverse of jsonable for witnesses (bytes come back from {'hex': ..})."""
    if isinstance(x, dict):
        if set(x.keys()) == {'hex'}:
            return bytes.fromhex(x['hex'])
        return {k: unjson(v) for k, v in x.items()}
    if isinstance(x, list):
        return [unjson(i) for i in x]
    if isinstance(x, str) and (x.lstrip('-').isdigit() and len(x) > 18):
        return int(x)
    return x
