#!/usr/bin/env python3
"""Prints the 'as built' table of DESIGN.md section 10 from the committed evidence files and harness constants."""
import importlib
import json
import os
import sys

ROOT = os.path.dirname(os.path.dirname(os.path.abspath(__file__)))
sys.path.insert(0, ROOT)


def main():
    m = json.load(open(os.path.join(ROOT, 'MANIFEST.json')))
    print('| id | engines | obligations (quick) | paths / solver queries | wall (quick, 10 workers) | known findings |')
    print('|---|---|---|---|---|---|')
    for c in m['checks']:
        pid = c['property_id']
        ev = json.load(open(os.path.join(ROOT, 'evidence', f'{pid}.json')))
        cov = ev['coverage']
        engines = sorted({s['engine'] for s in cov.get('samples', [])})
        kf = sum(1 for s in cov.get('samples', []) if s.get('known_regions_excluded'))
        print(f"| {pid} | {', '.join(engines)} | {cov['obligations']} | {cov['states']} / {cov['transitions']} | {ev['wall_s']:.0f} s | {kf or ''} |")


if __name__ == '__main__':
    main()
    del importlib
