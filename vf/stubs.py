"""Stub helpers shared by the harnesses (each stub used is named in the evidence)."""
from __future__ import annotations

import contextlib


def untraced(fn):
    """Run a formatting/logging helper outside the symbolic tracer (its result is not the subject).

    Arguments that are symbolic are replaced by a placeholder so that nothing is realised."""

    def wrapper(*a, **kw):
        try:
            from crosshair.core import CrossHairValue
            from crosshair.tracers import NoTracing, is_tracing
        except Exception:
            return fn(*a, **kw)
        if not is_tracing():
            return fn(*a, **kw)
        with NoTracing():
            try:
                return fn(*a, **kw)
            except Exception:
                return ''

    wrapper._vf_untraced = True
    return wrapper


def const_stub(value):
    def stub(*a, **kw):
        return value

    return stub


@contextlib.contextmanager
def patched(*triples):
    """patched((obj, 'attr', value), ...) -- plain setattr/restore (mock.patch is slow under tracing)."""
    saved = []
    try:
        for obj, name, val in triples:
            saved.append((obj, name, getattr(obj, name)))
            setattr(obj, name, val)
        yield
    finally:
        for obj, name, val in reversed(saved):
            setattr(obj, name, val)


class _Json:
    """json module stand-in: dumps() for log lines returns a constant under tracing."""

    def __init__(self, real):
        self._real = real

    def dumps(self, *a, **kw):
        try:
            from crosshair.tracers import is_tracing
        except Exception:
            return self._real.dumps(*a, **kw)
        if is_tracing():
            return '<json>'
        return self._real.dumps(*a, **kw)

    def __getattr__(self, name):
        return getattr(self._real, name)


def json_log_stub(real_json):
    return _Json(real_json)
