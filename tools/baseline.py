#!/usr/bin/env python3
"""Runs the repository test-suite (hooks off: there are none) and checks every BASELINE stable_pass test passes."""
import json, subprocess, sys, tempfile, os, xml.etree.ElementTree as ET
TREE = os.environ.get('BASE_TREE', '/repo')  # a scratch worktree when judging a seeded change
base = json.load(open('/root/.vp/BASELINE.json'))
want = set(base['stable_pass'])
out = tempfile.mktemp(suffix='.xml')
cmd = ['/venv/bin/python', '-m', 'pytest', '-q', '-p', 'no:cacheprovider', '--timeout=900', '--continue-on-collection-errors',
       f'--junitxml={out}'] + (['-n', sys.argv[1]] if len(sys.argv) > 1 else [])
subprocess.run(cmd, cwd=TREE, stdout=subprocess.DEVNULL, stderr=subprocess.DEVNULL, env={**os.environ, 'PYTHONPATH': TREE + '/src'})
passed = set()
for tc in ET.parse(out).getroot().iter('testcase'):
    if not any(c.tag in ('failure', 'error', 'skipped') for c in tc):
        passed.add(f"{tc.get('classname')}::{tc.get('name')}")
missing = sorted(want - passed)
print(f'stable_pass={len(want)} passed_now={len(passed)} missing={len(missing)}')
for m in missing[:20]:
    print('  MISSING', m)
os.unlink(out)
sys.exit(1 if missing else 0)
