"""C03 COMPARE and ordered collections follow the Tezos total order."""
from harness import mbv, mich
from vf.core import Ob

TARGETS = ['pytezos.michelson.instructions.compare.compare', 'pytezos.michelson.instructions.compare.CompareInstruction.execute',
           'pytezos.michelson.types.core.*.__lt__/__eq__', 'pytezos.michelson.types.pair.PairType.__lt__/__eq__',
           'pytezos.michelson.types.option.OptionType.__lt__/__eq__', 'pytezos.michelson.types.sum.OrType.__lt__/__eq__',
           'pytezos.michelson.types.domain.AddressType.__lt__', 'pytezos.michelson.types.domain.KeyType.__lt__',
           'pytezos.michelson.types.set.SetType.check_constraints', 'pytezos.michelson.types.map.MapType.check_constraints',
           'pytezos.michelson.types.set.SetType.add', 'pytezos.michelson.types.map.MapType.update']
STUBS = ['set(items) inside check_constraints -> duplicate elimination by __eq__ (hash consistency of value classes assumed)',
         'format_stdout -> no-op']
BOUNDS = {'quick': 'comparable type shapes of depth <= 2 over int nat mutez timestamp string bytes bool unit + pair/option/or; ints unbounded, '
                   'strings/bytes <= 2 symbols; literals of 2..3 elements; base58-rendered types: solver-chosen pairs/triples from a '
                   'table of real representatives of every kind',
          'thorough': 'depth <= 3, strings/bytes <= 3 symbols, literals of 2..4 elements'}
OUTSIDE = ['never (no values)', 'payload-level order of base58-rendered values beyond the representatives (bridged by the C09 lemma)',
           'relative order of sig/edsig renderings of equal bytes: only the order axioms are asserted']
ASSUMPTIONS = ['reference order: ints numerically; string/bytes bytewise (prefix smaller); False < True; pairs lexicographic; None < Some; '
               'Left < Right; addresses implicit < originated < rollup, then the entrypoint name bytewise with no entrypoint = "default"; key hashes/keys by curve (ed < secp < p256 < bls) then bytes']

SHAPES_QUICK = ['int', 'nat', 'mutez', 'timestamp', 'string', 'bytes', 'bool', 'unit',
                'pair int int', 'pair string nat', 'pair bool bytes', 'pair (pair int int) int', 'pair int (pair nat string)',
                'pair int int int', 'option int', 'option string', 'option (pair int int)', 'or int string', 'or (pair int int) bool',
                'pair (option int) (or nat unit)', 'option (option nat)', 'or (or int nat) unit']
SHAPES_THOROUGH = ['pair (pair (pair int int) int) (pair nat nat)', 'pair string string string', 'option (or (pair int string) (option bytes))',
                   'or (option (pair int int)) (pair (or int nat) bool)', 'pair int nat mutez timestamp']


def _cmp_instr(a, b):
    ins = mich.I({'prim': 'COMPARE'})
    out = mich.run_instr(ins, [a, b])
    return out[0]


def sym_compare(P, ex):
    ty = mich.T(P['type'])
    with mbv.env():
        a = mbv.sym_value(ex, ty, 'a', P['maxlen'])
        b = mbv.sym_value(ex, ty, 'b', P['maxlen'])
        from vf import bvx

        bvx.apply_regions(ex, {}, P)
        lt, eq = mbv.ref_cmp(a, b)
        try:
            r = _cmp_instr(a, b)
        except mich.Failed as e:
            ex.fail_here(f'COMPARE failed: {e}')
        v = r.value
        ex.check(r.prim == 'int', 'COMPARE pushes an int')
        if v == -1:
            ex.check(lt, 'COMPARE = -1 only when a < b in the Tezos order')
        elif v == 0:
            ex.check(eq, 'COMPARE = 0 only when a = b')
        elif v == 1:
            ex.check(bvx.sym_not(bvx.sym_or(lt, eq)), 'COMPARE = 1 only when a > b')
        else:
            ex.fail_here('COMPARE result outside {-1,0,1}')


def conc_compare(P, w):
    ty = mich.T(P['type'])
    a, b = mbv.conc_value(ty, w, 'a'), mbv.conc_value(ty, w, 'b')
    exp = mbv.conc_cmp(a, b)
    try:
        got = _cmp_instr(a, b).value
    except mich.Failed as e:
        return {'ok': False, 'observed': str(e), 'expected': exp, 'a': repr(a), 'b': repr(b)}
    return {'ok': got == exp, 'observed': got, 'expected': exp, 'a': repr(a), 'b': repr(b)}


# ---- literals: set / map constraints ---------------------------------------------------------------
def sym_literal(P, ex):
    """A literal (sequence of n symbolic elements) is accepted iff strictly increasing in the reference order."""
    from vf import bvx

    kty = mich.T(P['type'])
    n = P['n']
    kind = P['kind']
    with mbv.env():
        keys = [mbv.sym_value(ex, kty, f'k{i}', P['maxlen']) for i in range(n)]
        sorted_ref = bvx.sym_and(*[mbv.ref_lt(keys[i], keys[i + 1]) for i in range(n - 1)])
        if kind == 'set':
            cls = mich.T({'prim': 'set', 'args': [kty.as_micheline_expr()]})
            items = keys
        else:
            cls = mich.T({'prim': 'map', 'args': [kty.as_micheline_expr(), {'prim': 'unit'}]})
            items = [(k, mich.unit()) for k in keys]
        try:
            cls.check_constraints(items)
            accepted = True
        except (bvx.Abort, bvx.Found, bvx.Inconclusive):
            raise
        except Exception:
            accepted = False
        if accepted:
            ex.check(sorted_ref, f'{kind} literal accepted only if strictly increasing')
        else:
            ex.check(bvx.sym_not(sorted_ref), f'strictly increasing {kind} literal rejected')


def conc_literal(P, w):
    kty = mich.T(P['type'])
    n, kind = P['n'], P['kind']
    keys = [mbv.conc_value(kty, w, f'k{i}') for i in range(n)]
    exp = all(mbv.conc_cmp(keys[i], keys[i + 1]) < 0 for i in range(n - 1))
    if kind == 'set':
        cls = mich.T({'prim': 'set', 'args': [kty.as_micheline_expr()]})
        items = keys
    else:
        cls = mich.T({'prim': 'map', 'args': [kty.as_micheline_expr(), {'prim': 'unit'}]})
        items = [(k, mich.unit()) for k in keys]
    try:
        cls.check_constraints(items)
        got = True
    except Exception:
        got = False
    return {'ok': got == exp, 'observed': 'accepted' if got else 'rejected', 'expected': 'accepted' if exp else 'rejected', 'keys': [repr(k) for k in keys]}


# ---- base58-rendered types: representatives --------------------------------------------------------
def _b58(prefix: bytes, payload: bytes) -> str:
    from pytezos.crypto.encoding import base58_encode

    return base58_encode(payload, prefix).decode()


def representatives(kind):
    """(rank, payload, text) triples; rank+payload define the reference order."""
    lo, mid, hi = bytes(20), bytes([0x7F] * 20), bytes([0xFF] * 20)
    if kind == 'key_hash':
        out = []
        for rank, pfx in enumerate([b'tz1', b'tz2', b'tz3', b'tz4']):
            for pl in (lo, mid, hi):
                out.append(((rank, pl), _b58(pfx, pl)))
        return out
    if kind == 'address':
        out = []
        for rank, pfx in enumerate([b'tz1', b'tz2', b'tz3', b'tz4', b'KT1', b'sr1']):
            for pl in (lo, hi):
                out.append(((rank, pl, ''), _b58(pfx, pl)))
        out.append(((4, lo, 'foo'), _b58(b'KT1', lo) + '%foo'))
        out.append(((0, hi, 'bar'), _b58(b'tz1', hi) + '%bar'))
        # entrypoint names on both sides of "default" (a bare address carries the default entrypoint)
        for ep in ('abc', 'Burn', 'mint', 'defaulu', 'defaul'):
            out.append(((4, lo, ep), _b58(b'KT1', lo) + '%' + ep))
        return out
    if kind == 'key':
        out = []
        for rank, (pfx, n) in enumerate([(b'edpk', 32), (b'sppk', 33), (b'p2pk', 33), (b'BLpk', 48)]):
            for fill in (0x02, 0x03, 0xF0):
                pl = bytes([fill] * n)
                out.append(((rank, pl[1:] if pfx == b'p2pk' else pl), _b58(pfx, pl)))
        # P-256 keys are ordered by their X coordinate (KeyType.__lt__ docstring: the leading 02/03 parity byte does not take part):
        # two keys whose parity bytes order the other way round than their coordinates
        for pl in (b'\x03' + bytes(31) + b'\x01', b'\x02' + bytes([0xFF] * 32)):
            out.append(((2, pl[1:]), _b58(b'p2pk', pl)))
        # secp256k1 keys: the parity byte does take part
        for pl in (b'\x03' + bytes(31) + b'\x01', b'\x02' + bytes([0xFF] * 32)):
            out.append(((1, pl), _b58(b'sppk', pl)))
        return out
    if kind == 'chain_id':
        return [((0, pl), _b58(b'Net', pl)) for pl in (bytes(4), bytes([0, 0, 1, 0]), bytes([0x7F] * 4), bytes([0xFF] * 4))]
    if kind == 'signature':
        return [((0, pl), _b58(b'sig', pl)) for pl in (bytes(64), bytes([0x01] * 64), bytes([0xFF] * 64))]
    raise KeyError(kind)


def _dom_value(kind, text):
    from pytezos.michelson import types as t

    cls = {'key_hash': t.KeyHashType, 'address': t.AddressType, 'key': t.KeyType, 'chain_id': t.ChainIdType, 'signature': t.SignatureType}[kind]
    return cls(text)


def _ref_dom(kind, ka, kb):
    if kind == 'address':
        # destination first, then the entrypoint name bytewise; no entrypoint = "default"
        x, y = (ka[0], ka[1], (ka[2] or 'default').encode()), (kb[0], kb[1], (kb[2] or 'default').encode())
        return -1 if x < y else (0 if x == y else 1)
    x, y = ka[:2], kb[:2]
    return -1 if x < y else (0 if x == y and ka == kb else 1)


def sym_domain(P, ex):
    kind = P['kind']
    reps = representatives(kind)
    i = mbv._choose(ex, 'i', 0, len(reps) - 1)
    j = mbv._choose(ex, 'j', 0, len(reps) - 1)
    k = mbv._choose(ex, 'k', 0, len(reps) - 1)
    from vf import bvx

    bvx.apply_regions(ex, {'i': i, 'j': j, 'k': k}, P)
    r = conc_domain(P, {'i': i, 'j': j, 'k': k})
    if not r['ok']:
        ex.fail_here(r['why'])
    ex.check(True)


def conc_domain(P, w):
    kind = P['kind']
    reps = representatives(kind)
    i, j, k = int(w['i']), int(w['j']), int(w['k'])
    (ka, ta), (kb, tb), (kc, tc) = reps[i], reps[j], reps[k]
    a, b, c = _dom_value(kind, ta), _dom_value(kind, tb), _dom_value(kind, tc)

    def cmp(x, y):
        return _cmp_instr(x, y).value

    try:
        ab, ba, bc, ac, aa = cmp(a, b), cmp(b, a), cmp(b, c), cmp(a, c), cmp(a, a)
    except mich.Failed as e:
        return {'ok': False, 'why': f'COMPARE failed on {kind}: {e}', 'values': [ta, tb, tc]}
    exp = _ref_dom(kind, ka, kb)
    if ab not in (-1, 0, 1):
        return {'ok': False, 'why': 'result outside {-1,0,1}', 'values': [ta, tb]}
    if exp is not None and ab != exp:
        return {'ok': False, 'why': f'COMPARE {ta} {tb} = {ab}, Tezos order gives {exp}', 'values': [ta, tb], 'observed': ab, 'expected': exp}
    if aa != 0 or ab != -ba or ((ab == 0) != (ta == tb)):
        return {'ok': False, 'why': f'not reflexive/antisymmetric on {ta} {tb}', 'values': [ta, tb]}
    if ab <= 0 and bc <= 0 and ac > 0:
        return {'ok': False, 'why': f'not transitive on {ta} {tb} {tc}', 'values': [ta, tb, tc]}
    return {'ok': True}


def sym_frompy(P, ex):
    kind = P['kind']
    reps = representatives(kind)
    idx = [mbv._choose(ex, f'i{n}', 0, len(reps) - 1) for n in range(P['n'])]
    r = conc_frompy(P, {f'i{n}': v for n, v in enumerate(idx)})
    if not r['ok']:
        ex.fail_here(r['why'])
    ex.check(True)


def conc_frompy(P, w):
    """Collections built from Python objects are ordered by the Michelson order, not by the Python order of the raw objects."""
    kind = P['kind']
    reps = representatives(kind)
    idx = [int(w[f'i{n}']) for n in range(P['n'])]
    if len(set(idx)) != len(idx):
        return {'ok': True, 'note': 'duplicate choice'}
    texts = [reps[i][1] for i in idx]
    rank = {reps[i][1]: reps[i][0] for i in idx}
    if kind == 'address':
        rank = {t: (r[0], r[1], (r[2] or 'default').encode()) for t, r in rank.items()}
    exp = [t for t in sorted(texts, key=lambda t: rank[t])]
    st = mich.T({'prim': 'set', 'args': [{'prim': kind}]})
    mt = mich.T({'prim': 'map', 'args': [{'prim': kind}, {'prim': 'unit'}]})
    try:
        got_s = [x.value for x in st.from_python_object(list(texts)).items]
        got_m = [k.value for k, _ in mt.from_python_object({t: None for t in texts}).items]
        lit = st.from_python_object(list(texts)).to_micheline_value()
        st.from_micheline_value(lit)
    except Exception as e:  # noqa
        return {'ok': False, 'why': f'{type(e).__name__}: {e} on {texts}', 'values': texts}
    if got_s != exp or got_m != exp:
        return {'ok': False, 'why': f'from_python_object order {got_s} / {got_m}, Tezos order {exp}', 'observed': [got_s, got_m], 'expected': exp}
    return {'ok': True}


def obligations(tier):
    q = tier == 'quick'
    t = 90 if q else 900
    maxlen = 2 if q else 3
    shapes = SHAPES_QUICK + ([] if q else SHAPES_THOROUGH)
    obs = []
    for s in shapes:
        obs.append(Ob(f'cmp/{s}', 'bvx', sym_compare, conc_compare, {'type': s, 'maxlen': maxlen}, timeout=t,
                      bounds=f'two symbolic values of {s}; ints unbounded, strings/bytes <= {maxlen} symbols', targets=TARGETS))
    lit_types = ['int', 'string', 'pair int int', 'option int', 'or int string', 'pair int (pair nat int)', 'bytes', 'bool']
    for s in lit_types:
        for kind in ('set', 'map'):
            for n in ((2, 3) if q else (2, 3, 4)):
                if n == 4 and s not in ('int', 'pair int int'):
                    continue
                obs.append(Ob(f'literal/{kind}/{s}/n={n}', 'bvx', sym_literal, conc_literal,
                              {'type': s, 'n': n, 'kind': kind, 'maxlen': 1 if s in ('string', 'bytes', 'or int string') else maxlen}, timeout=t,
                              bounds=f'{kind} literal of {n} symbolic elements of {s}', targets=TARGETS))
    for kind in ('key_hash', 'address', 'key', 'chain_id', 'signature'):
        obs.append(Ob(f'domain/{kind}', 'bvx', sym_domain, conc_domain, {'kind': kind}, timeout=t * 2,
                      bounds=f'solver-chosen triples from {len(representatives(kind)) if kind else 0} real {kind} representatives covering every kind',
                      targets=TARGETS))
    for kind in ('key_hash', 'address', 'key'):
        obs.append(Ob(f'from-python/{kind}', 'bvx', sym_frompy, conc_frompy, {'kind': kind, 'n': 3}, timeout=t * 2,
                      bounds=f'sets and maps built by from_python_object from solver-chosen triples of real {kind} representatives',
                      targets=['pytezos.michelson.types.set.SetType.from_python_object', 'pytezos.michelson.types.map.MapType.parse_python_object']))
    return obs
