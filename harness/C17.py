"""C17 Type annotations do not change execution or serialization."""
from harness import mbv, mich
from vf.core import Ob

TARGETS = ['pytezos.michelson.types.pair.PairType.iter_comb/unpairn_comb/access_comb/update_comb', 'pytezos.michelson.types.pair.PairType.to_micheline_value',
           'pytezos.michelson.instructions.adt.GetnInstruction/UpdatenInstruction/UnpairnInstruction/PairnInstruction/CarInstruction/CdrInstruction/UnpairInstruction',
           'pytezos.michelson.types.base.MichelsonType.pack', 'pytezos.michelson.instructions.compare.CompareInstruction.execute',
           'pytezos.michelson.instructions.control.MapInstruction.execute', 'pytezos.michelson.instructions.struct.*']
STUBS = ['format_stdout -> no-op', 'str(int)/int(str), hex -> opaque wrappers', 'symbolic prim tags concretised by forking (forge module re-instantiated)']
BOUNDS = {'quick': 'right combs of 3..4 leaves and one nested-left shape; every subset of pair nodes and leaves annotated (solver-chosen mask) with field or type annotations; '
                   'leaf values symbolic (|ints| < 2^13, strings/bytes <= 1); instructions GET n, UPDATE n, UNPAIR n, UNPAIR, CAR, CDR, PAIR n, PACK, COMPARE, MAP/GET/UPDATE on maps with annotated keys, SOME/LEFT/CONS wrappers, short sequences that build a container or option from an annotated component (MAP {CAR}, CAR;SLICE, CAR;SOME, ...), LAMBDA/APPLY/EXEC with an annotated parameter type',
          'thorough': 'combs of 3..5 leaves'}
OUTSIDE = ['entrypoint names and Python-object field names (may depend on annotations by the property itself)', 'programs beyond the listed one-instruction and short-sequence templates']
ASSUMPTIONS = ['reference behaviour = the same instruction on the annotation-free type with the same values']

SHAPES = {
    'comb3': 'pair int (pair nat string)',
    'comb4': 'pair int (pair nat (pair string bytes))',
    'left-nested': 'pair (pair int nat) (pair string bytes)',
}
SHAPES_T = {'comb5': 'pair int (pair nat (pair string (pair bytes bool)))'}


def nodes(texpr, path=''):
    out = [path]
    for i, a in enumerate(texpr.get('args', [])):
        if a.get('prim') in ('pair',) or True:
            out.extend(nodes(a, path + str(i)))
    return out


def annotate(texpr, mask, kind, path='', order=None):
    """copy of texpr where node i (pre-order) gets an annotation iff bit i of mask is set"""
    if order is None:
        order = {p: i for i, p in enumerate(nodes(texpr))}
    e = {'prim': texpr['prim']}
    if 'args' in texpr:
        e['args'] = [annotate(a, mask, kind, path + str(i), order) for i, a in enumerate(texpr['args'])]
    if (mask >> order[path]) & 1:
        e['annots'] = [('%' if kind == 'field' else ':') + 'n' + str(order[path])]
    return e


def _masks(nn, maxann):
    """annotation masks: all non-empty subsets of the nodes, or those with at most `maxann` annotated nodes"""
    ms = [m for m in range(1, 1 << nn) if maxann is None or bin(m).count('1') <= maxann]
    return ms


def instrs_for(shape_expr, n_leaves):
    """(name, instruction expr, extra operands builder) templates on a comb operand"""
    out = []
    for k in range(0, 2 * n_leaves - 1):
        out.append((f'GET {k}', {'prim': 'GET', 'args': [{'int': str(k)}]}, None))
    for k in range(2, n_leaves + 1):
        out.append((f'UNPAIR {k}', {'prim': 'UNPAIR', 'args': [{'int': str(k)}]}, None))
    out += [('UNPAIR', {'prim': 'UNPAIR'}, None), ('CAR', {'prim': 'CAR'}, None), ('CDR', {'prim': 'CDR'}, None), ('PACK', {'prim': 'PACK'}, None),
            ('SOME', {'prim': 'SOME'}, None), ('DUP', {'prim': 'DUP'}, None)]
    for k in (1, 2, 2 * n_leaves - 3, 2 * n_leaves - 2):
        if k >= 0:
            out.append((f'UPDATE {k}', {'prim': 'UPDATE', 'args': [{'int': str(k)}]}, 'int-element' if k == 1 else None))
    return out


def _result(items):
    """annotation-blind observation of a result stack"""
    return tuple((mich.abstract(x), _packed(x)) for x in items)


def _packed(v):
    try:
        if v.is_packable():
            return v.pack()
    except Exception as e:  # noqa
        return f'pack failed: {type(e).__name__}'
    return None


def _deq_obs(a, b):
    if len(a) != len(b):
        return False
    r = True
    for (xa, pa), (xb, pb) in zip(a, b):
        r = mich._and(r, mich.deq(xa, xb))
        if isinstance(pa, str) or isinstance(pb, str) or pa is None or pb is None:
            r = mich._and(r, (pa is None and pb is None) or (isinstance(pa, str) and isinstance(pb, str)))
        else:
            r = mich._and(r, pa == pb)
    return r


def _run(ty, ex_or_w, ins, extra, sym):
    from pytezos.michelson import types as t

    if sym:
        v = mbv.sym_value(ex_or_w, ty, 'v', 1, 1)
    else:
        v = mbv.conc_value(ty, ex_or_w, 'v')
    stack = [v]
    if ins['prim'] == 'UPDATE':
        k = int(ins['args'][0]['int'])
        # the new element: same type as the replaced component (taken from the stripped structure)
        comp = v.access_comb(k) if _safe_access(v, k) else None
        if comp is None:
            return ('skip',)
        stack = [comp, v]
    try:
        out = mich.run_instr(mich.I(ins), stack)
    except mich.Failed as e:
        return ('fail', str(e)[:80])
    del t
    return ('ok', _result(out), tuple(mich.type_expr(x) for x in out))


def _safe_access(v, k):
    try:
        v.access_comb(k)
        return True
    except Exception:
        return False


def sym_comb(P, ex):
    from vf import bvx

    base = mich.texpr(P['type'])
    nn = len(nodes(base))
    masks = _masks(nn, P.get('maxann'))
    mask = masks[mbv._choose(ex, 'mask_index', 0, len(masks) - 1)]
    kind = P['kind']
    TA, TS = mich.T(annotate(base, mask, kind)), mich.T(base)
    ins = P['ins']
    ex.int_backend = 'bv'
    with mbv.env(forge=True):
        ex._bv_ints = 1      # all integer leaves range over two Zarith groups (|v| < 2^13)
        rs = _run(TS, ex, ins, None, True)
        ex._bv_ints = 1      # all integer leaves range over two Zarith groups (|v| < 2^13)
        ra = _run(TA, ex, ins, None, True)
        if rs[0] == 'skip':
            ex.check(True)
            return
        if rs[0] != ra[0]:
            ex.fail_here(f'{P["name"]}: {"fails" if ra[0] == "fail" else "succeeds"} on the annotated type but not on the plain type ({ra[1] if ra[0] == "fail" else ""})')
        if rs[0] == 'ok':
            ex.check(_deq_obs(ra[1], rs[1]), f'{P["name"]}: results and their packed bytes are the same with and without annotations')
            ex.check(ra[2] == rs[2], f'{P["name"]}: result types agree up to annotations')
        else:
            ex.check(True)


def conc_comb(P, w):
    base = mich.texpr(P['type'])
    masks = _masks(len(nodes(base)), P.get('maxann'))
    mask = masks[int(w['mask_index'])]
    TA, TS = mich.T(annotate(base, mask, P['kind'])), mich.T(base)
    ins = P['ins']
    rs = _run(TS, w, ins, None, False)
    ra = _run(TA, w, ins, None, False)
    if rs[0] == 'skip':
        return {'ok': True}
    ok = rs[0] == ra[0] and (rs[0] != 'ok' or (_deq_obs(ra[1], rs[1]) and ra[2] == rs[2]))
    return {'ok': bool(ok), 'annotated_type': annotate(base, mask, P['kind']), 'instruction': ins,
            'observed': _show(ra), 'expected': _show(rs)}


def _show(r):
    if r[0] != 'ok':
        return list(r)
    return ['ok', [[repr(a), (p.hex() if isinstance(p, bytes) else p)] for a, p in r[1]]]


def PUSHN(n):
    return {'prim': 'PUSH', 'args': [{'prim': 'nat'}, {'int': str(n)}]}


# ---- collections with annotated element / key types -------------------------------------------------
COLL = [
    ('MAP over map with annotated pair key', 'map (pair int nat) int', {'prim': 'MAP', 'args': [[{'prim': 'CDR'}]]}, [0]),
    ('GET on map with annotated pair key', 'map (pair int nat) int', {'prim': 'GET'}, [0], 'key'),
    ('MEM on set of annotated pairs', 'set (pair int nat)', {'prim': 'MEM'}, [0], 'key'),
    ('ITER over list of annotated pairs', 'list (pair int nat)', {'prim': 'ITER', 'args': [[{'prim': 'CAR'}, {'prim': 'ADD'}]]}, [0], 'acc'),
    ('COMPARE annotated pairs', 'pair (pair int nat) string', {'prim': 'COMPARE'}, [], 'twice'),
    ('PACK option of annotated comb', 'option (pair int (pair nat (pair string nat)))', {'prim': 'PACK'}, []),
    ('CONS annotated pair', 'list (pair int nat)', {'prim': 'CONS'}, [0], 'elt'),
    # results whose type is built at run time from the type of an annotated component
    ('MAP CAR over list of annotated pairs', 'list (pair int nat)', {'prim': 'MAP', 'args': [[{'prim': 'CAR'}]]}, [0]),
    ('MAP CDR over list of annotated pairs', 'list (pair int nat)', {'prim': 'MAP', 'args': [[{'prim': 'CDR'}]]}, [0]),
    ('MAP CAR over map of annotated pairs', 'map nat (pair int string)', {'prim': 'MAP', 'args': [[{'prim': 'CDR'}, {'prim': 'CAR'}]]}, [0]),
    ('SLICE of a pair component (out of range)', 'pair string nat', [{'prim': 'CAR'}, PUSHN(5), PUSHN(0), {'prim': 'SLICE'}], []),
    ('SLICE of a pair component (in range)', 'pair bytes nat', [{'prim': 'CAR'}, PUSHN(0), PUSHN(0), {'prim': 'SLICE'}], []),
    ('CAR then SOME', 'pair int nat', [{'prim': 'CAR'}, {'prim': 'SOME'}], []),
    ('CDR then NIL CONS', 'pair int nat', [{'prim': 'CDR'}, {'prim': 'NIL', 'args': [{'prim': 'nat'}]}, {'prim': 'SWAP'}, {'prim': 'CONS'}], []),
    ('CAR then LEFT', 'pair int nat', [{'prim': 'CAR'}, {'prim': 'LEFT', 'args': [{'prim': 'unit'}]}], []),
    ('UNPAIR SWAP PAIR', 'pair int nat', [{'prim': 'UNPAIR'}, {'prim': 'SWAP'}, {'prim': 'PAIR'}], []),
    ('CAR then EDIV', 'pair int nat', [{'prim': 'UNPAIR'}, {'prim': 'EDIV'}], []),
    ('CAR then singleton set', 'pair int nat', [{'prim': 'CAR'}, {'prim': 'EMPTY_SET', 'args': [{'prim': 'int'}]}, {'prim': 'PUSH', 'args': [{'prim': 'bool'}, {'prim': 'True'}]}, {'prim': 'DIG', 'args': [{'int': '2'}]}, {'prim': 'UPDATE'}], []),
    ('CDR as map value', 'pair int nat', [{'prim': 'UNPAIR'}, {'prim': 'DIP', 'args': [[{'prim': 'SOME'}]]}, {'prim': 'EMPTY_MAP', 'args': [{'prim': 'int'}, {'prim': 'nat'}]}, {'prim': 'DUG', 'args': [{'int': '2'}]}, {'prim': 'UPDATE'}], []),
    ('IF_NONE on option of annotated pair', 'option (pair int nat)', [{'prim': 'IF_NONE', 'args': [[{'prim': 'NONE', 'args': [{'prim': 'int'}]}], [{'prim': 'CAR'}, {'prim': 'SOME'}]]}], []),
    ('IF_LEFT on union with annotated pair', 'or (pair int nat) string', [{'prim': 'IF_LEFT', 'args': [[{'prim': 'CDR'}, {'prim': 'SOME'}], [{'prim': 'DROP'}, {'prim': 'NONE', 'args': [{'prim': 'nat'}]}]]}], []),
    ('CONCAT of annotated components', 'pair string string', [{'prim': 'UNPAIR'}, {'prim': 'CONCAT'}], []),
    # a value parsed under the annotated type against an equal value rebuilt at run time (PAIR n yields an annotation-free pair)
    ('rebuild with UNPAIR 3 / PAIR 3 then COMPARE', 'pair int (pair nat string)', [{'prim': 'DUP'}, {'prim': 'UNPAIR', 'args': [{'int': '3'}]}, {'prim': 'PAIR', 'args': [{'int': '3'}]}, {'prim': 'COMPARE'}], []),
    ('rebuild with a changed second leaf then COMPARE', 'pair int (pair nat string)',
     [{'prim': 'DUP'}, {'prim': 'UNPAIR', 'args': [{'int': '3'}]}, {'prim': 'SWAP'}, PUSHN(1), {'prim': 'ADD'}, {'prim': 'SWAP'}, {'prim': 'PAIR', 'args': [{'int': '3'}]}, {'prim': 'COMPARE'}], []),
    ('rebuilt key MEM in a singleton set', 'pair int (pair nat string)',
     [{'prim': 'DUP'}, {'prim': 'UNPAIR', 'args': [{'int': '3'}]}, {'prim': 'PAIR', 'args': [{'int': '3'}]}, {'prim': 'SWAP'},
      {'prim': 'EMPTY_SET', 'args': [{'prim': 'pair', 'args': [{'prim': 'int'}, {'prim': 'pair', 'args': [{'prim': 'nat'}, {'prim': 'string'}]}]}]},
      {'prim': 'PUSH', 'args': [{'prim': 'bool'}, {'prim': 'True'}]}, {'prim': 'DIG', 'args': [{'int': '2'}]}, {'prim': 'UPDATE'}, {'prim': 'SWAP'}, {'prim': 'MEM'}], []),
    ('rebuilt key with a changed second leaf inserted next to the parsed one', 'pair int (pair nat string)',
     [{'prim': 'DUP'}, {'prim': 'UNPAIR', 'args': [{'int': '3'}]}, {'prim': 'SWAP'}, PUSHN(1), {'prim': 'ADD'}, {'prim': 'SWAP'}, {'prim': 'PAIR', 'args': [{'int': '3'}]}, {'prim': 'SWAP'},
      {'prim': 'EMPTY_SET', 'args': [{'prim': 'pair', 'args': [{'prim': 'int'}, {'prim': 'pair', 'args': [{'prim': 'nat'}, {'prim': 'string'}]}]}]},
      {'prim': 'PUSH', 'args': [{'prim': 'bool'}, {'prim': 'True'}]}, {'prim': 'DIG', 'args': [{'int': '2'}]}, {'prim': 'UPDATE'},
      {'prim': 'PUSH', 'args': [{'prim': 'bool'}, {'prim': 'True'}]}, {'prim': 'DIG', 'args': [{'int': '2'}]}, {'prim': 'UPDATE'}, {'prim': 'SIZE'}], []),
    ('APPLY on a lambda with an annotated parameter pair', 'pair nat int', 'LAMBDA-APPLY', [], 'lambda'),
    ('EXEC of a lambda with an annotated parameter pair', 'pair nat int', 'LAMBDA-EXEC', [], 'lambda'),
    ('PACK of an applied lambda with an annotated parameter pair', 'pair nat int', 'LAMBDA-APPLY-PACK', [], 'lambda'),
    ('PACK of an applied lambda whose captured argument is an annotated pair', 'pair (pair nat int) string', 'LAMBDA-APPLY-PACK', [], 'lambda'),
    ('PACK of a lambda with an annotated parameter pair', 'pair nat int', 'LAMBDA-PACK', [], 'lambda'),
]


def _inner_pairs(texpr, path=''):
    out = []
    if texpr.get('prim') == 'pair':
        out.append(path)
    for i, a in enumerate(texpr.get('args', [])):
        out.extend(_inner_pairs(a, path + str(i)))
    return out


def _annot_pairs(texpr, mask, kind, path='', order=None):
    """annotate pair nodes and their direct children, but never the direct argument of list/set/map/option (not allowed)"""
    if order is None:
        order = {}
        for p in _inner_pairs(texpr):
            for q in (p, p + '0', p + '1'):
                order.setdefault(q, len(order))
        if kind == 'field':     # a field annotation on the direct argument of a collection type is not allowed
            for forbidden in [p for p in list(order) if _is_collection_arg(texpr, p)]:
                order[forbidden] = None
    e = {'prim': texpr['prim']}
    if 'args' in texpr:
        e['args'] = [_annot_pairs(a, mask, kind, path + str(i), order) for i, a in enumerate(texpr['args'])]
    idx = order.get(path)
    if idx is not None and (mask >> idx) & 1:
        e['annots'] = [(':' if (kind == 'type' or _is_collection_arg_path(path, order)) else '%') + 'n' + str(idx)]
    return e


def _is_collection_arg(texpr, path):
    node = texpr
    parent = None
    for ch in path:
        parent = node
        node = node['args'][int(ch)]
    return parent is not None and parent['prim'] in ('list', 'set', 'map', 'option', 'big_map')


def _is_collection_arg_path(path, order):
    return False


def _coll_run(ty, src, ins, how, sym):
    from pytezos.michelson import types as t

    if how == 'lambda':
        texpr = ty.as_micheline_expr()
        code = [{'prim': 'LAMBDA', 'args': [texpr, {'prim': 'nat'}, [{'prim': 'CAR'}]]}]
        if ins == 'LAMBDA-PACK':
            code = [{'prim': 'LAMBDA', 'args': [texpr, {'prim': 'unit'}, [{'prim': 'DROP'}, {'prim': 'UNIT'}]]}, {'prim': 'PACK'}]
        elif ins == 'LAMBDA-APPLY-PACK':
            left = mich.strip_annots(texpr['args'][0])
            lit = {'prim': 'Pair', 'args': [{'int': '1'}, {'int': '2'}]} if left.get('prim') == 'pair' else {'int': '1'}
            code = [{'prim': 'LAMBDA', 'args': [texpr, {'prim': 'unit'}, [{'prim': 'DROP'}, {'prim': 'UNIT'}]]}, {'prim': 'PUSH', 'args': [left, lit]}, {'prim': 'APPLY'}, {'prim': 'PACK'}]
        elif ins == 'LAMBDA-APPLY':
            code += [PUSHN(1), {'prim': 'APPLY'}, {'prim': 'PUSH', 'args': [{'prim': 'int'}, {'int': '5'}]}, {'prim': 'EXEC'}]
        else:
            code += [{'prim': 'PUSH', 'args': [mich.strip_annots(texpr), {'prim': 'Pair', 'args': [{'int': '3'}, {'int': '4'}]}]}, {'prim': 'EXEC'}]
        try:
            out = mich.run_seq([mich.I(i) for i in code], [])
        except mich.Failed as e:
            return ('fail', str(e)[:80])
        return ('ok', _result(out), tuple(mich.type_expr(x) for x in out))
    v = mbv.sym_value(src, ty, 'v', 1, 1) if sym else mbv.conc_value(ty, src, 'v')
    stack = [v]
    if how == 'key':
        kty = ty.args[0]
        k = mbv.sym_value(src, kty, 'k', 1, 1) if sym else mbv.conc_value(kty, src, 'k')
        stack = [k, v]
    elif how == 'acc':
        stack = [v, t.IntType(0)]
    elif how == 'twice':
        v2 = mbv.sym_value(src, ty, 'v2', 1, 1) if sym else mbv.conc_value(ty, src, 'v2')
        stack = [v, v2]
    elif how == 'elt':
        ety = ty.args[0]
        e = mbv.sym_value(src, ety, 'e', 1, 1) if sym else mbv.conc_value(ety, src, 'e')
        stack = [e, v]
    try:
        out = mich.run_seq([mich.I(i) for i in ins], stack) if isinstance(ins, list) else mich.run_instr(mich.I(ins), stack)
    except mich.Failed as e:
        return ('fail', str(e)[:80])
    return ('ok', _result(out), tuple(mich.type_expr(x) for x in out))


def sym_coll(P, ex):
    base = mich.texpr(P['type'])
    order_n = len({q for p in _inner_pairs(base) for q in (p, p + '0', p + '1')})
    mask = mbv._choose(ex, 'mask', 1, (1 << order_n) - 1)
    if P.get('how') == 'lambda' and P['kind'] == 'field' and (mask & 1):
        from vf import bvx

        raise bvx.Abort()     # a field annotation on the parameter type of a lambda itself is not well-formed Michelson
    try:
        TA = mich.T(_annot_pairs(base, mask, P['kind']))
    except Exception:  # annotation placement not allowed by the type constructor (e.g. annotated collection argument)
        from vf import bvx

        raise bvx.Abort()
    TS = mich.T(base)
    ex.int_backend = 'bv'
    with mbv.env(forge=True):
        ex._bv_ints = 1      # all integer leaves range over two Zarith groups (|v| < 2^13)
        rs = _coll_run(TS, ex, P['ins'], P.get('how'), True)
        ex._bv_ints = 1      # all integer leaves range over two Zarith groups (|v| < 2^13)
        ra = _coll_run(TA, ex, P['ins'], P.get('how'), True)
        if rs[0] != ra[0]:
            ex.fail_here(f'{P["name"]}: {"fails" if ra[0] == "fail" else "succeeds"} on the annotated type only ({ra[1] if ra[0] == "fail" else ""})')
        if rs[0] == 'ok':
            ex.check(_deq_obs(ra[1], rs[1]), f'{P["name"]}: same results and packed bytes with and without annotations')
            ex.check(ra[2] == rs[2], f'{P["name"]}: result types agree up to annotations')
        else:
            ex.check(True)


def conc_coll(P, w):
    base = mich.texpr(P['type'])
    mask = int(w['mask'])
    if P.get('how') == 'lambda' and P['kind'] == 'field' and (mask & 1):
        return {'ok': True, 'note': 'field annotation on the lambda parameter type itself: not well-formed'}
    try:
        TA = mich.T(_annot_pairs(base, mask, P['kind']))
    except Exception:
        return {'ok': True, 'note': 'annotation placement rejected by the type constructor'}
    TS = mich.T(base)
    rs = _coll_run(TS, w, P['ins'], P.get('how'), False)
    ra = _coll_run(TA, w, P['ins'], P.get('how'), False)
    ok = rs[0] == ra[0] and (rs[0] != 'ok' or (_deq_obs(ra[1], rs[1]) and ra[2] == rs[2]))
    return {'ok': bool(ok), 'annotated_type': _annot_pairs(base, mask, P['kind']), 'observed': _show(ra), 'expected': _show(rs)}


def obligations(tier):
    q = tier == 'quick'
    t = 180 if q else 1200
    shapes = dict(SHAPES)
    if not q:
        shapes.update(SHAPES_T)
    obs = []
    for sname, s in shapes.items():
        n_leaves = s.count('int') + s.count('nat') + s.count('string') + s.count('bytes') + s.count('bool')
        for kind in ('field', 'type'):
            for name, ins, _ in instrs_for(mich.texpr(s), n_leaves):
                if kind == 'type' and name.startswith(('GET', 'UPDATE')) and q and sname != 'comb4':
                    continue
                if q and sname == 'left-nested' and not name.startswith(('UNPAIR', 'PACK', 'GET 3', 'GET 4')):
                    continue
                if q and kind == 'type' and not name.startswith(('PACK', 'UNPAIR 3', 'GET 3', 'UPDATE 2')):
                    continue
                maxann = (2 if n_leaves >= 4 else None) if q else (None if n_leaves <= 3 else (3 if n_leaves == 4 else 2))      # sized by wall time
                obs.append(Ob(f'{sname}/{kind}/{name}', 'bvx', sym_comb, conc_comb, {'type': s, 'kind': kind, 'ins': ins, 'name': name, 'maxann': maxann},
                              timeout=t, opts={'W': 96},
                              bounds=f'{s}: every non-empty subset of nodes' + (' with <= 2 annotated nodes' if maxann else '') + f' carries a {kind} annotation; symbolic leaves',
                              targets=TARGETS))
    for entry in COLL:
        name, s, ins, _ = entry[:4]
        how = entry[4] if len(entry) > 4 else None
        for kind in ('field', 'type'):
            obs.append(Ob(f'coll/{kind}/{name}', 'bvx', sym_coll, conc_coll, {'type': s, 'kind': kind, 'ins': ins, 'name': name, 'how': how}, timeout=t, opts={'W': 96},
                          bounds=f'{s}: every allowed subset of pair nodes/components annotated; symbolic contents (collections <= 1)', targets=TARGETS))
    return obs
