"""C11 Typed values round-trip through readable and optimized Micheline."""
import contextlib

from harness import mbv, mich
from vf.core import Ob

TARGETS = ['pytezos.michelson.types.*.to_micheline_value', 'pytezos.michelson.types.*.from_micheline_value', 'pytezos.michelson.types.pair.PairType.iter_comb',
           'pytezos.michelson.types.domain.TimestampType.to_micheline_value/from_micheline_value', 'pytezos.michelson.format.format_timestamp',
           'pytezos.michelson.forge.optimize_timestamp', 'pytezos.michelson.micheline.parse_micheline_literal/parse_micheline_value']
STUBS = ['str(int)/int(str) -> opaque decimal token', 'time library contract: datetime.fromtimestamp+strftime (format_timestamp) and strict_rfc3339.rfc3339_to_timestamp are '
         'replaced by a contract whose boundaries (first/last representable instant, first instant of year 1000) are measured from the real functions at start-up',
         'base58 boundary stub for address/key/key_hash/signature/chain_id leaves']
BOUNDS = {'quick': 'type shapes of depth <= 3, combs of 2..5 leaves; ints unbounded, strings/bytes <= 2, collections <= 2; every integer timestamp; three modes',
          'thorough': 'combs of 2..7 leaves, strings/bytes <= 3, collections <= 3'}
OUTSIDE = ['big_map, lambda, ticket, contract, sapling, chest types', 'fractional-second / offset timestamp strings (parsing direction only)']
ASSUMPTIONS = ['reference rendering: harness/mbv.ref_micheline (readable: n-ary Pair; optimized: sequence for combs >= 4; legacy: nested binary pairs)']

MODES = ['readable', 'optimized', 'legacy_optimized']
SHAPES_Q = ['int', 'nat', 'mutez', 'string', 'bytes', 'bool', 'unit', 'pair int nat', 'pair int nat string', 'pair int nat string bytes',
            'pair int nat string bytes bool', 'pair (pair int nat) string', 'pair (pair int nat string bytes) (pair bool unit)',
            'option int', 'option (option nat)', 'or int string', 'or (or int nat) (pair string bytes)', 'list int', 'list (pair int nat string bytes)',
            'set int', 'map string int', 'map (pair int nat) (option bytes)', 'option (pair int (list nat) (or unit bool) string)']
SHAPES_T = ['pair int nat string bytes bool unit', 'pair int nat string bytes bool unit mutez', 'list (list (option (pair int int int int)))',
            'map int (map string (pair nat nat nat nat))', 'or (list (or int (pair nat nat nat))) (set (pair int int))']


def measured_time_contract():
    """Boundaries of the real time functions, measured now (not constants of this file)."""
    from pytezos.michelson.forge import optimize_timestamp
    from pytezos.michelson.format import format_timestamp

    def ok(ts):
        try:
            return optimize_timestamp(format_timestamp(ts)) == ts
        except Exception:
            return False

    def fmt_raises(ts):
        try:
            format_timestamp(ts)
            return False
        except Exception:
            return True

    def bisect(lo, hi, pred):          # pred(lo) True, pred(hi) False -> last True
        while hi - lo > 1:
            mid = (lo + hi) // 2
            if pred(mid):
                lo = mid
            else:
                hi = mid
        return lo

    assert ok(0)
    hi_ok = bisect(0, 10 ** 13, ok)                      # last instant that round-trips
    lo_ok = -bisect(0, 10 ** 13, lambda x: ok(-x))        # first instant that round-trips
    lo_fmt = -bisect(0, 10 ** 13, lambda x: not fmt_raises(-x))   # first instant format_timestamp accepts
    hi_fmt = bisect(0, 10 ** 13, lambda x: not fmt_raises(x))
    return {'lo_ok': lo_ok, 'hi_ok': hi_ok, 'lo_fmt': lo_fmt, 'hi_fmt': hi_fmt}


class _TsText(str):
    """Rendered RFC3339 text of a (symbolic) instant inside the round-trip range."""

    def __new__(cls, v):
        o = str.__new__(cls, '<rfc3339>')
        o.v = v
        return o


class _BadText(str):
    def __new__(cls):
        return str.__new__(cls, '<unparseable year>')


@contextlib.contextmanager
def time_contract(C):
    import pytezos.michelson.forge as F
    import pytezos.michelson.types.domain as D
    from vf import bvx

    class InvalidRFC3339Error(Exception):
        pass

    class Rfc:
        pass

    Rfc.InvalidRFC3339Error = InvalidRFC3339Error

    def rfc3339_to_timestamp(s):
        if isinstance(s, _TsText):
            return s.v
        raise InvalidRFC3339Error()

    Rfc.rfc3339_to_timestamp = staticmethod(rfc3339_to_timestamp)

    def format_timestamp(ts):
        if not isinstance(ts, (bvx.IntZ, bvx.SymInt)):
            from pytezos.michelson.format import format_timestamp as real

            return real(ts)
        if (ts < C['lo_fmt']) | (ts > C['hi_fmt']):
            raise ValueError('year out of range')
        if (ts < C['lo_ok']) | (ts > C['hi_ok']):
            return _BadText()
        return _TsText(ts)

    real_int = F.__dict__.get('int')

    class IntShim:
        def __call__(self, x=0, *a):
            if isinstance(x, (_TsText, _BadText)):
                raise ValueError('invalid literal for int()')
            return bvx._Int(x, *a)

    saved = (F.strict_rfc3339, D.format_timestamp)
    F.strict_rfc3339 = Rfc
    D.format_timestamp = format_timestamp
    try:
        with bvx.shadowed(F):
            F.int = IntShim()
            yield
    finally:
        F.strict_rfc3339, D.format_timestamp = saved
        if real_int is None:
            F.__dict__.pop('int', None)
        else:
            F.int = real_int


def _deq_json(a, b):
    from harness.C05 import deq

    return deq(a, b)


def sym_shape(P, ex):
    ty = mich.T(P['type'])
    mode = P['mode']
    with mbv.env():
        v = mbv.sym_value(ex, ty, 'v', P['maxlen'], P['maxcoll'])
        try:
            m = v.to_micheline_value(mode=mode)
        except Exception as e:  # noqa
            ex.fail_here(f'to_micheline_value({mode}) failed: {type(e).__name__}: {e}')
        ex.check(_deq_json(m, mbv.ref_micheline(v, mode)), f'{mode} rendering equals the reference rendering')
        try:
            back = ty.from_micheline_value(m)
        except Exception as e:  # noqa
            ex.fail_here(f'parsing the {mode} rendering back failed: {type(e).__name__}: {e}')
        ex.check(mich.deq(mich.abstract(back), mich.abstract(v)), 'parsed value equals the original')
        ex.check(mich.type_expr(back) == mich.type_expr(v), 'parsed value has the same type')
        # Tezos accepts every notation of a comb when parsing: all three renderings parse to the same value
        for other in MODES:
            if other != mode and P.get('cross'):
                b2 = ty.from_micheline_value(mbv.ref_micheline(v, other))
                ex.check(mich.deq(mich.abstract(b2), mich.abstract(v)), f'{other} notation parses to the same value')


def conc_shape(P, w):
    ty = mich.T(P['type'])
    mode = P['mode']
    v = mbv.conc_value(ty, w, 'v')
    try:
        m = v.to_micheline_value(mode=mode)
        back = ty.from_micheline_value(m)
    except Exception as e:  # noqa
        return {'ok': False, 'value': repr(v), 'observed': f'{type(e).__name__}: {e}'}
    ref = mbv.ref_micheline(v, mode)
    ok = m == ref and mich.abstract(back) == mich.abstract(v)
    if ok and P.get('cross'):
        for other in MODES:
            try:
                ok = ok and mich.abstract(ty.from_micheline_value(mbv.ref_micheline(v, other))) == mich.abstract(v)
            except Exception as e:  # noqa
                return {'ok': False, 'value': repr(v), 'observed': f'{other} notation rejected: {type(e).__name__}: {e}'}
    return {'ok': ok, 'value': repr(v), 'observed': m, 'expected': ref, 'back': repr(back)}


def sym_timestamp(P, ex):
    from vf import bvx

    C = measured_time_contract()
    ty = mich.T(P.get('type', 'timestamp'))
    mode = P['mode']
    with mbv.env(), time_contract(C):
        v = mbv.sym_value(ex, ty, 'v', 1, 1)
        bvx.apply_regions(ex, {}, P)
        try:
            m = v.to_micheline_value(mode=mode)
            back = ty.from_micheline_value(m)
        except (bvx.Abort, bvx.Found, bvx.Inconclusive):
            raise
        except Exception as e:  # noqa
            ex.fail_here(f'timestamp does not round-trip in {mode} mode: {type(e).__name__}: {e}')
        ex.check(mich.deq(mich.abstract(back), mich.abstract(v)), f'{mode} round trip of a timestamp')


def conc_timestamp(P, w):
    ty = mich.T(P.get('type', 'timestamp'))
    mode = P['mode']
    v = mbv.conc_value(ty, w, 'v')
    try:
        m = v.to_micheline_value(mode=mode)
        back = ty.from_micheline_value(m)
    except Exception as e:  # noqa
        return {'ok': False, 'value': repr(v), 'observed': f'{type(e).__name__}: {e}'}
    return {'ok': mich.abstract(back) == mich.abstract(v), 'value': repr(v), 'observed': m, 'back': repr(back)}


def sym_contract_check(P, ex):
    r = conc_contract_check(P, {})
    if not r['ok']:
        ex.fail_here('time-library contract does not describe the real functions: ' + str(r['observed']))
    ex.check(True)


def conc_contract_check(P, w):
    """The stub contract against the real functions at the measured boundaries +-1 and fixed instants."""
    from pytezos.michelson.forge import optimize_timestamp
    from pytezos.michelson.format import format_timestamp

    C = measured_time_contract()
    bad = []
    for ts in [C['lo_ok'], C['lo_ok'] + 1, C['hi_ok'], C['hi_ok'] - 1, 0, 1, -1, 86399, 86400, 951782400, 1709164800, 4102444800, -2208988800]:
        try:
            if optimize_timestamp(format_timestamp(ts)) != ts:
                bad.append(ts)
        except Exception:
            bad.append(ts)
    for ts in [C['lo_ok'] - 1, C['hi_ok'] + 1]:
        try:
            if optimize_timestamp(format_timestamp(ts)) == ts:
                bad.append(ts)
        except Exception:
            pass
    return {'ok': not bad, 'observed': bad, 'contract': C}


def obligations(tier):
    q = tier == 'quick'
    t = 120 if q else 1200
    maxlen, maxcoll = (2, 2) if q else (3, 3)
    obs = [Ob('time-contract', 'bvx', sym_contract_check, conc_contract_check, timeout=60,
              bounds='concrete: stub contract vs real datetime/strict_rfc3339 at the measured boundaries +-1 and fixed instants', targets=TARGETS)]
    for s in SHAPES_Q + ([] if q else SHAPES_T):
        for mode in MODES:
            ml, mc = maxlen, maxcoll
            if s.startswith('list (pair') or s.startswith('map (pair') or s.startswith('option (pair'):
                ml, mc = 1, (1 if q else 2)
            elif not q and s.count('map') + s.count('list') + s.count('set') >= 2:
                ml, mc = 2, 2       # nested collections: sized by wall time
            obs.append(Ob(f'{mode}/{s}', 'bvx', sym_shape, conc_shape, {'type': s, 'mode': mode, 'maxlen': ml, 'maxcoll': mc, 'cross': mode == 'readable' and 'pair' in s},
                          timeout=t, bounds=f'all values of {s}: ints unbounded, strings/bytes <= {ml}, collections <= {mc}', targets=TARGETS))
    for mode in MODES:
        obs.append(Ob(f'{mode}/timestamp', 'bvx', sym_timestamp, conc_timestamp, {'mode': mode}, timeout=t, bounds='every integer timestamp', targets=TARGETS))
        obs.append(Ob(f'{mode}/pair timestamp (option timestamp)', 'bvx', sym_timestamp, conc_timestamp, {'mode': mode, 'type': 'pair timestamp (option timestamp)'},
                      timeout=t, bounds='every integer timestamp, nested', targets=TARGETS))
    from harness import C10

    for tname, kind, ep in (('address', 'tz1', None), ('address', 'KT1', 'a'), ('address', 'sr1', None), ('address', 'tz3', 'default'), ('key_hash', 'tz2', None),
                            ('key_hash', 'tz1', None), ('key_hash', 'tz4', None), ('key', 'p2pk', None),
                            ('key', 'edpk', None), ('key', 'sppk', None), ('signature', 'sig', None), ('chain_id', 'Net', None)):
        for mode in MODES:
            obs.append(Ob(f'{mode}/{tname}/{kind}/{ep or "-"}', 'bvx', C10.sym_roundtrip, C10.conc_roundtrip,
                          {'type': tname, 'kind': kind, 'entrypoint': ep, 'mode': mode}, timeout=t, opts={'W': 32},
                          bounds=f'every payload of {kind} (base58 boundary stub)', targets=TARGETS))
    return obs
