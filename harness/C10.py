"""C10 Addresses, keys, key hashes, signatures and chain ids survive binary form."""
import contextlib

from harness import mbv, mich
from vf.core import Ob

TARGETS = ['pytezos.michelson.forge.forge_address', 'pytezos.michelson.forge.unforge_address', 'pytezos.michelson.forge.forge_contract',
           'pytezos.michelson.forge.unforge_contract', 'pytezos.michelson.forge.forge_public_key', 'pytezos.michelson.forge.unforge_public_key',
           'pytezos.michelson.forge.forge_base58', 'pytezos.michelson.forge.unforge_signature', 'pytezos.michelson.forge.unforge_chain_id',
           'pytezos.michelson.types.domain.*.to_micheline_value/from_micheline_value/from_value', 'pytezos.michelson.micheline.blind_unpack',
           'pytezos.crypto.encoding.base58_encode', 'pytezos.crypto.encoding.base58_decode']
STUBS = ['base58 package boundary: b58decode_check(real string of kind K) -> binary prefix of K || fully symbolic payload; '
         'b58encode_check(bytes) -> records its argument and returns the real representative string of the kind named by the binary prefix '
         '(prefix/length facts relied upon are the C09 lemmas)']
BOUNDS = 'every payload (all 20/32/33/48/64/96/4 bytes symbolic) of every kind; entrypoint names from a fixed list (absent, default, 1 char, 31 chars, names around "default")'
OUTSIDE = ['symbolic entrypoint text', 'Base58Check itself (C09)']
ASSUMPTIONS = ['a typed signature (edsig/spsig/p2sig) read back from bytes may come back in generic `sig` form: only the signature bytes are required to survive']

ENTRYPOINTS = [None, 'default', 'a', 'do', 'default_admin', 'set_default', 'e' * 31, 'a%b', 'x.y@z']

# kind -> (human prefix, michelson type)
ADDRESS_KINDS = ['tz1', 'tz2', 'tz3', 'tz4', 'KT1', 'sr1']
KEYHASH_KINDS = ['tz1', 'tz2', 'tz3', 'tz4']
KEY_KINDS = ['edpk', 'sppk', 'p2pk', 'BLpk']
SIG_KINDS = ['sig', 'edsig', 'spsig', 'p2sig', 'BLsig']


def _rows():
    from pytezos.crypto.encoding import base58_encodings

    return [(bytes(h), int(L), bytes(P), int(n)) for h, L, P, n, _ in base58_encodings]


def _row(prefix: str, n=None):
    for h, L, P, nn in _rows():
        if h == prefix.encode() and (n is None or nn == n):
            return h, L, P, nn
    raise KeyError(prefix)


def representative(prefix: str, n=None) -> str:
    import base58

    h, L, P, nn = _row(prefix, n)
    return base58.b58encode_check(P + bytes([0x11] * nn)).decode()


class Boundary:
    """Library-boundary stub of the base58 package."""

    def __init__(self, ex, kinds):
        from vf import bvx

        self.bvx = bvx
        self.ex = ex
        self.rep = {}      # representative text -> (row, symbolic payload)
        self.by_bin = {}   # binary prefix -> representative text
        self.recorded = []
        for h, L, P, n in _rows():
            try:
                text = representative(h.decode(), n)
            except Exception:
                continue
            if len(text) != L or not text.startswith(h.decode()):
                continue
            self.by_bin[(P, n)] = text
        for k in kinds:
            h, L, P, n = _row(*k) if isinstance(k, tuple) else _row(k)
            text = representative(h.decode(), n)
            self.rep[text] = ((h, L, P, n), ex.bytes(f'payload:{h.decode()}', n))

    def text(self, prefix, n=None):
        return representative(prefix, n)

    def payload(self, prefix, n=None):
        return self.rep[representative(prefix, n)][1]

    # -- the two entry points of the package used by pytezos --
    def b58decode_check(self, v):
        if isinstance(v, bytes):
            v = v.decode()
        if v in self.rep:
            (h, L, P, n), payload = self.rep[v]
            return self.bvx.SymBytes(list(P)) + payload
        import base58

        return base58.b58decode_check(v)

    def b58encode_check(self, data):
        items = list(data.items) if isinstance(data, self.bvx.SymBytes) else list(data)
        for (P, n), text in self.by_bin.items():
            if len(items) == len(P) + n and all(isinstance(x, int) for x in items[:len(P)]) and bytes(items[:len(P)]) == P:
                self.recorded.append((P, n, self.bvx.SymBytes(items[len(P):])))
                return text.encode()
        raise ValueError('stub: no kind has this binary prefix / length')

    def b58decode(self, v):
        import base58

        return base58.b58decode(v)

    def b58encode(self, v):
        import base58

        return base58.b58encode(v)


@contextlib.contextmanager
def boundary(ex, kinds):
    import pytezos.crypto.encoding as E
    import pytezos.michelson.forge as F
    from vf import bvx

    b = Boundary(ex, kinds)
    saved = (E.base58, F.base58)
    E.base58 = b
    F.base58 = b
    try:
        with mbv.env(), bvx.shadowed(E, F):
            yield b
    finally:
        E.base58, F.base58 = saved


def _type(name):
    from pytezos.michelson import types as t

    return {'address': t.AddressType, 'key_hash': t.KeyHashType, 'key': t.KeyType, 'signature': t.SignatureType, 'chain_id': t.ChainIdType}[name]


def _kind_of(text: str) -> str:
    text = text.split('%')[0]
    for h, L, P, n in sorted(_rows(), key=lambda r: -len(r[0])):
        if len(text) == L and text.startswith(h.decode()):
            return h.decode()
    return '?'


def sym_roundtrip(P, ex):
    from vf import bvx

    tname, kind, ep, mode = P['type'], P['kind'], P.get('entrypoint'), P.get('mode', 'optimized')
    n = P.get('n')
    with boundary(ex, [(kind, n)]) as b:
        text = b.text(kind, n) + (('%' + ep) if ep else '')
        payload = b.payload(kind, n)
        bvx.apply_regions(ex, {'payload': payload}, P)
        cls = _type(tname)
        try:
            v = cls.from_value(text)
        except Exception as e:  # noqa
            ex.fail_here(f'{tname}.from_value rejects a valid {kind} value: {e}')
        try:
            opt = v.to_micheline_value(mode=mode)
        except (bvx.Abort, bvx.Found, bvx.Inconclusive):
            raise
        except Exception as e:  # noqa
            ex.fail_here(f'to_micheline_value({mode}) failed: {type(e).__name__}: {e}')
        if mode == 'readable':
            ex.check(isinstance(opt, dict) and opt.get('string') == (text[:-len('%default')] if text.endswith('%default') else text), 'readable form is the text itself')
            back = cls.from_micheline_value(opt)
            ex.check(back.value == opt['string'], 'readable round trip')
            return
        ex.check(isinstance(opt, dict) and 'bytes' in opt, 'optimized form is a bytes literal')
        b.recorded.clear()
        try:
            back = cls.from_micheline_value(opt)
        except (bvx.Abort, bvx.Found, bvx.Inconclusive):
            raise
        except Exception as e:  # noqa
            ex.fail_here(f'reading the optimized form back failed: {type(e).__name__}: {e}')
        got_kind = _kind_of(back.value)
        if tname == 'signature' and kind in ('edsig', 'spsig', 'p2sig'):
            ex.check(got_kind in (kind, 'sig'), 'signature read back as the same curve or as generic sig')
        else:
            ex.check(got_kind == kind, f'kind {kind} read back as {got_kind}')
        ex.check(len(b.recorded) >= 1, 'the value was re-encoded through Base58Check')
        Pb, nn, rec = b.recorded[-1]
        ex.check(rec == payload, 'payload bytes survive')
        exp_ep = ep if ep and ep != 'default' else None
        got_ep = back.value.split('%', 1)[1] if '%' in back.value else None
        ex.check(got_ep == exp_ep, f'entrypoint {exp_ep} read back as {got_ep}')
        if P.get('blind') and not exp_ep:
            import pytezos.michelson.micheline as MM

            b.recorded.clear()
            raw = bvx._Bytes.fromhex(opt['bytes'])
            bvx.HASH_SHORT_BYTES[0] = True      # unforge_public_key looks the tag byte up in a dict
            try:
                with bvx.shadowed(MM):
                    res = MM.blind_unpack(raw)
            finally:
                bvx.HASH_SHORT_BYTES[0] = False
            ok_kinds = (kind, 'sig') if (tname == 'signature' and kind in ('edsig', 'spsig', 'p2sig')) else (kind,)
            ex.check(isinstance(res, str) and _kind_of(res) in ok_kinds, f'blind_unpack of the optimized form returns a {tname} of the same kind')
            ex.check(b.recorded and b.recorded[-1][2] == payload, 'blind_unpack keeps the payload')


def conc_roundtrip(P, w):
    import base58

    tname, kind, ep, mode = P['type'], P['kind'], P.get('entrypoint'), P.get('mode', 'optimized')
    n = P.get('n')
    h, L, Pb, nn = _row(kind, n)
    payload = bytes(w.get(f'payload:{kind}', bytes(nn)))
    text = base58.b58encode_check(Pb + payload).decode() + (('%' + ep) if ep else '')
    cls = _type(tname)
    try:
        v = cls.from_value(text)
        opt = v.to_micheline_value(mode=mode)
        back = cls.from_micheline_value(opt)
    except Exception as e:  # noqa
        return {'ok': False, 'value': text, 'observed': f'{type(e).__name__}: {e}'}
    exp = text[:-len('%default')] if text.endswith('%default') else text
    ok = back.value == exp
    if tname == 'signature' and kind in ('edsig', 'spsig', 'p2sig') and not ok:
        ok = base58.b58decode_check(back.value)[-64:] == payload and back.value.startswith('sig')
    res = {'ok': ok, 'value': text, 'optimized': opt, 'observed': back.value, 'expected': exp}
    if ok and P.get('blind') and '%' not in exp:
        from pytezos.michelson.micheline import blind_unpack

        try:
            r = blind_unpack(bytes.fromhex(opt['bytes']))
        except Exception as e:  # noqa
            r = f'{type(e).__name__}: {e}'
        res['blind_unpack'] = repr(r)
        res['ok'] = r == exp or (tname == 'signature' and isinstance(r, str) and r.startswith('sig') and base58.b58decode_check(r)[-64:] == payload)
    return res


def sym_sequence(P, ex):
    """Two values of different kinds carrying the *same* payload bytes are converted one after the other in one process."""
    from vf import bvx

    tname, kinds = P['type'], P['kinds']
    with boundary(ex, [(k, None) for k in kinds]) as b:
        first = b.payload(kinds[0])
        cls = _type(tname)
        for k in kinds:
            pl = b.payload(k)
            ex.assume(pl == first)
            v = cls.from_value(b.text(k))
            opt = v.to_micheline_value(mode='optimized')
            b.recorded.clear()
            try:
                back = cls.from_micheline_value(opt)
            except (bvx.Abort, bvx.Found, bvx.Inconclusive):
                raise
            except Exception as e:  # noqa
                ex.fail_here(f'reading the optimized form of {k} back failed: {type(e).__name__}: {e}')
            ex.check(_kind_of(back.value) == k, f'kind {k} read back as {_kind_of(back.value)} after converting {kinds[0]}')
            ex.check(b.recorded and b.recorded[-1][2] == pl, 'payload survives')


def conc_sequence(P, w):
    import base58

    tname, kinds = P['type'], P['kinds']
    cls = _type(tname)
    payload = bytes(w.get(f'payload:{kinds[0]}', bytes(20)))
    out = []
    for k in kinds:
        h, L, Pb, nn = _row(k)
        text = base58.b58encode_check(Pb + payload).decode()
        try:
            back = cls.from_micheline_value(cls.from_value(text).to_micheline_value(mode='optimized')).value
        except Exception as e:  # noqa
            back = f'{type(e).__name__}: {e}'
        out.append([text, back])
    return {'ok': all(a == b for a, b in out), 'observed': out}


def obligations(tier):
    obs = []
    t = 120

    def add(name, P, note):
        obs.append(Ob(name, 'bvx', sym_roundtrip, conc_roundtrip, P, timeout=t, opts={'W': 32}, bounds=note, targets=TARGETS, stubs=STUBS))

    for mode in ('optimized', 'legacy_optimized'):
        for kind in ADDRESS_KINDS:
            for ep in ENTRYPOINTS:
                if mode == 'legacy_optimized' and ep not in (None, 'a'):
                    continue
                add(f'address/{kind}/{ep or "-"}/{mode}', {'type': 'address', 'kind': kind, 'entrypoint': ep, 'mode': mode, 'blind': mode == 'optimized'},
                    f'all 20-byte payloads of {kind}; entrypoint {ep!r}')
        for kind in KEYHASH_KINDS:
            add(f'key_hash/{kind}/{mode}', {'type': 'key_hash', 'kind': kind, 'mode': mode, 'blind': mode == 'optimized'}, f'all 20-byte payloads of {kind}')
        for kind in KEY_KINDS:
            add(f'key/{kind}/{mode}', {'type': 'key', 'kind': kind, 'mode': mode, 'blind': mode == 'optimized'}, f'all payloads of {kind}')
        for kind in SIG_KINDS:
            add(f'signature/{kind}/{mode}', {'type': 'signature', 'kind': kind, 'mode': mode, 'blind': mode == 'optimized'}, f'all payloads of {kind}')
        add(f'chain_id/Net/{mode}', {'type': 'chain_id', 'kind': 'Net', 'mode': mode, 'blind': mode == 'optimized'}, 'all 4-byte chain ids')
    for tname, kinds in (('address', ['tz1', 'tz2']), ('address', ['tz2', 'KT1', 'sr1']), ('address', ['KT1', 'tz1', 'tz3']),
                         ('key_hash', ['tz1', 'tz4', 'tz2']), ('key_hash', ['tz3', 'tz1'])):
        obs.append(Ob(f'sequence/{tname}/' + '+'.join(kinds), 'bvx', sym_sequence, conc_sequence, {'type': tname, 'kinds': kinds}, timeout=t,
                      opts={'W': 32}, bounds='values of several kinds with identical payload bytes converted in sequence in one process',
                      targets=TARGETS, stubs=STUBS))
    return obs
