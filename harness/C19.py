"""C19 Macro expansions have their specified Michelson meaning."""
import itertools

from harness import mbv, mich
from vf.core import Ob

TARGETS = ['pytezos.michelson.macros.expand_macro', 'pytezos.michelson.macros.expand_*', 'pytezos.michelson.macros.build_pxr_tree/traverse_pxr_tree',
           'pytezos.michelson.instructions.* (execution of the expansion)']
STUBS = ['format_stdout -> no-op']
BOUNDS = {'quick': 'CMPop IFop IFCMPop ASSERT ASSERT_op ASSERT_CMPop ASSERT_NONE/SOME/LEFT/RIGHT FAIL IF_SOME IF_RIGHT; DI{2..5}P, DU{2..5}P; every P[PAI]+R / UNP..R tree with <= 5 leaves (thorough: 6); '
                   'C[AD]{2..3}R, SET_C[AD]{1..3}R, MAP_C[AD]{1..3}R; with and without annotations; all stack values symbolic (unbounded ints, bools)',
          'thorough': 'PAIR trees with <= 5 leaves; C[AD]{2..4}R'}
OUTSIDE = ['annotation placement of macros other than the PAIR trees', 'longer macro names']
ASSUMPTIONS = ['reference meaning of each macro as in the Michelson documentation, written directly on stack values in this file']

OPS = {'EQ': lambda c: c == 0, 'NEQ': lambda c: c != 0, 'LT': lambda c: c < 0, 'GT': lambda c: c > 0, 'LE': lambda c: c <= 0, 'GE': lambda c: c >= 0}
PUSH1 = [{'prim': 'PUSH', 'args': [{'prim': 'int'}, {'int': '1'}]}]
PUSH2 = [{'prim': 'PUSH', 'args': [{'prim': 'int'}, {'int': '2'}]}]


def expand(name, annots=None, args=None):
    from pytezos.michelson.macros import expand_macro

    return expand_macro(name, list(annots or []), list(args or []))


def run(code, stack):
    """-> ('ok', [abstractions]) | ('fail',)"""
    try:
        out = mich.run_instr(mich.I(code), list(stack))
    except mich.Failed:
        return ('fail',)
    return ('ok', [mich.abstract(x) for x in out])


def _int(ex, name):
    return mich.mk('int', ex.int(name) if hasattr(ex, 'int') and not isinstance(ex, dict) else int(ex.get(name, 0)))


def _bool(ex, name):
    return mich.mk('bool', ex.bool(name) if not isinstance(ex, dict) else bool(ex.get(name, False)))


def _truth(x):
    """concretise a (possibly symbolic) boolean by forking"""
    return bool(x)


def _cmp(a, b):
    """reference compare of two ints -> -1/0/1 (forks when symbolic)"""
    if _truth(a < b):
        return -1
    if _truth(a == b):
        return 0
    return 1


# ---- families: each returns (code, stack, expected) where expected = ('fail',) | ('ok', [abstractions]) -----------
def case_cmp(src, op, annots):
    a, b = _int(src, 'a'), _int(src, 'b')
    return expand('CMP' + op, annots), [a, b], ('ok', [('bool', _truth(OPS[op](_cmp(a.value, b.value))))])


def case_if(src, op, annots):
    x = _int(src, 'x')
    return expand('IF' + op, annots, [PUSH1, PUSH2]), [x], ('ok', [('int', 1 if _truth(OPS[op](x.value)) else 2)])


def case_ifcmp(src, op, annots):
    a, b = _int(src, 'a'), _int(src, 'b')
    return expand('IFCMP' + op, annots, [PUSH1, PUSH2]), [a, b], ('ok', [('int', 1 if OPS[op](_cmp(a.value, b.value)) else 2)])


def case_assert(src, op, annots):
    k = _int(src, 'keep')
    if op == '':
        c = _bool(src, 'c')
        return expand('ASSERT', annots), [c, k], (('ok', [mich.abstract(k)]) if _truth(c.value) else ('fail',))
    x = _int(src, 'x')
    return expand('ASSERT_' + op, annots), [x, k], (('ok', [mich.abstract(k)]) if _truth(OPS[op](x.value)) else ('fail',))


def case_assert_cmp(src, op, annots):
    a, b, k = _int(src, 'a'), _int(src, 'b'), _int(src, 'keep')
    return expand('ASSERT_CMP' + op, annots), [a, b, k], (('ok', [mich.abstract(k)]) if OPS[op](_cmp(a.value, b.value)) else ('fail',))


def _opt(src, name):
    ty = mich.T('option int')
    return mbv.sym_value(src, ty, name, 1, 1) if not isinstance(src, dict) else mbv.conc_value(ty, _D(src), name)


def _or(src, name):
    ty = mich.T('or int nat')
    return mbv.sym_value(src, ty, name, 1, 1) if not isinstance(src, dict) else mbv.conc_value(ty, _D(src), name)


class _D(dict):
    def __missing__(self, k):
        return 0


def case_assert_variant(src, which, annots):
    k = _int(src, 'keep')
    if which in ('NONE', 'SOME'):
        o = _opt(src, 'o')
        if which == 'NONE':
            exp = ('ok', [mich.abstract(k)]) if o.item is None else ('fail',)
        else:
            exp = ('ok', [mich.abstract(o.item), mich.abstract(k)]) if o.item is not None else ('fail',)
        return expand('ASSERT_' + which, annots), [o, k], exp
    v = _or(src, 'u')
    if which == 'LEFT':
        exp = ('ok', [mich.abstract(v.items[0]), mich.abstract(k)]) if v.is_left() else ('fail',)
    else:
        exp = ('ok', [mich.abstract(v.items[1]), mich.abstract(k)]) if v.is_right() else ('fail',)
    return expand('ASSERT_' + which, annots), [v, k], exp


def case_fail(src, _, annots):
    return expand('FAIL', annots), [_int(src, 'keep')], ('fail',)


def case_if_variant(src, which, annots):
    a_some = [{'prim': 'DROP'}] + PUSH1
    if which == 'SOME':
        o = _opt(src, 'o')
        return expand('IF_SOME', annots, [a_some, PUSH2]), [o], ('ok', [('int', 1 if o.item is not None else 2)])
    v = _or(src, 'u')
    return expand('IF_RIGHT', annots, [a_some, [{'prim': 'DROP'}] + PUSH2]), [v], ('ok', [('int', 1 if v.is_right() else 2)])


def case_dip(src, n, annots, inner=None):
    if inner is None:
        items = [_int(src, f's{i}') for i in range(n + 1)]
        code = expand('D' + 'I' * n + 'P', annots, [[{'prim': 'DROP'}] + PUSH1])
        exp = [mich.abstract(x) for x in items[:n]] + [('int', 1)]
        return code, items, ('ok', exp)
    # the code block of the macro is itself one DIP / DIP k: the replaced element sits n + k deep
    k = 1 if inner == 'bare' else inner
    items = [_int(src, f's{i}') for i in range(n + k + 1)]
    body = {'prim': 'DIP', 'args': ([] if inner == 'bare' else [{'int': str(k)}]) + [[{'prim': 'DROP'}] + PUSH1]}
    code = expand('D' + 'I' * n + 'P', annots, [[body]])
    exp = [mich.abstract(x) for x in items[:n + k]] + [('int', 1)]
    return code, items, ('ok', exp)


def case_dup(src, n, annots):
    items = [_int(src, f's{i}') for i in range(n)]
    code = expand('D' + 'U' * n + 'P', annots)
    return code, items, ('ok', [mich.abstract(items[n - 1])] + [mich.abstract(x) for x in items])


# PAIR trees ------------------------------------------------------------------------------------------
def pair_trees(max_leaves):
    """all macro names P...R with their tree shapes: shape = 'L' | (left, right)"""
    def trees(n):
        if n == 1:
            return ['L']
        out = []
        for k in range(1, n):
            for l in trees(k):
                for r in trees(n - k):
                    out.append((l, r))
        return out

    def name(t, side):
        if t == 'L':
            return 'A' if side == 0 else 'I'
        return 'P' + name(t[0], 0) + name(t[1], 1)

    res = []
    for n in range(3, max_leaves + 1):
        for t in trees(n):
            res.append((name(t, 0) + 'R', t))
    return res


def _build(t, leaves):
    if t == 'L':
        return leaves.pop(0)
    l = _build(t[0], leaves)
    r = _build(t[1], leaves)
    return ('pair', l, r)


def _n_leaves(t):
    return 1 if t == 'L' else _n_leaves(t[0]) + _n_leaves(t[1])


def case_pxr(src, spec, annots):
    name, t = spec
    n = _n_leaves(t)
    items = [_int(src, f's{i}') for i in range(n + 1)]
    tree = _build(t, [mich.abstract(x) for x in items[:n]])
    code = expand(name, annots)
    un = expand('UN' + name, [])
    # PxR then UNPxR is the identity
    return code + un if isinstance(code, list) else [code] + un, items, ('ok', [mich.abstract(x) for x in items]), (code, ('ok', [tree, mich.abstract(items[n])]))


def _access(tree_val, path):
    for ch in path:
        tree_val = tree_val.items[0 if ch == 'A' else 1]
    return tree_val


def _comb_for_path(src, path):
    """a pair value deep enough for the access path: components are ints, the spine follows the path"""
    def build(p, tag):
        if not p:
            return _int(src, 'leaf' + tag)
        inner = build(p[1:], tag + p[0])
        other = _int(src, 'o' + tag + p[0])
        return mich.pair(inner, other) if p[0] == 'A' else mich.pair(other, inner)

    return build(path, '')


def _replace(absv, path, new):
    if not path:
        return new
    tag, l, r = absv
    if path[0] == 'A':
        return (tag, _replace(l, path[1:], new), r)
    return (tag, l, _replace(r, path[1:], new))


def case_cxr(src, path, annots):
    v = _comb_for_path(src, path)
    k = _int(src, 'keep')
    return expand('C' + path + 'R', annots), [v, k], ('ok', [mich.abstract(_access(v, path)), mich.abstract(k)])


def case_set_cxr(src, path, annots):
    v = _comb_for_path(src, path)
    x = _int(src, 'new')
    k = _int(src, 'keep')
    return expand('SET_C' + path + 'R', annots), [v, x, k], ('ok', [_replace(mich.abstract(v), path, mich.abstract(x)), mich.abstract(k)])


def case_map_cxr(src, path, annots):
    v = _comb_for_path(src, path)
    k = _int(src, 'keep')
    old = _access(v, path)
    if path[-1] == 'A':
        # MAP_CAR code = DUP ; CDR ; DIP { CAR ; code } ; SWAP ; PAIR: the body runs on the stack below the pair
        body = [{'prim': 'DIP', 'args': [[{'prim': 'DUP'}]]}, {'prim': 'ADD'}]     # x + keep
        new = ('int', old.value + k.value)
    else:
        # MAP_CDR code = DUP ; CDR ; code ; SWAP ; CAR ; PAIR: the body runs with the pair itself right below the element,
        # so a body that only touches the top is used here
        body = [{'prim': 'PUSH', 'args': [{'prim': 'int'}, {'int': '5'}]}, {'prim': 'ADD'}]
        new = ('int', old.value + 5)
    return expand('MAP_C' + path + 'R', annots, [body]), [v, k], ('ok', [_replace(mich.abstract(v), path, new), mich.abstract(k)])


FAMILIES = {
    'CMP': (case_cmp, list(OPS)), 'IF': (case_if, list(OPS)), 'IFCMP': (case_ifcmp, list(OPS)), 'ASSERT': (case_assert, [''] + list(OPS)),
    'ASSERT_CMP': (case_assert_cmp, list(OPS)), 'ASSERT_': (case_assert_variant, ['NONE', 'SOME', 'LEFT', 'RIGHT']), 'FAIL': (case_fail, [None]),
    'IF_': (case_if_variant, ['SOME', 'RIGHT']),
}


def _paths(lo, hi):
    out = []
    for n in range(lo, hi + 1):
        out += [''.join(p) for p in itertools.product('AD', repeat=n)]
    return out


def _case(P, src):
    fam, arg, annots = P['family'], P['arg'], P.get('annots', [])
    if fam in FAMILIES:
        return FAMILIES[fam][0](src, arg, annots)
    if fam == 'DIP':
        return case_dip(src, arg, annots, P.get('inner'))
    if fam == 'DUP':
        return case_dup(src, arg, annots)
    if fam == 'PXR':
        return case_pxr(src, (arg, P['tree']), annots)
    if fam == 'CXR':
        return case_cxr(src, arg, annots)
    if fam == 'SET_CXR':
        return case_set_cxr(src, arg, annots)
    if fam == 'MAP_CXR':
        return case_map_cxr(src, arg, annots)
    raise KeyError(fam)


def _eq_result(got, exp):
    if got[0] != exp[0]:
        return False
    if got[0] == 'fail':
        return True
    return mich.deq(tuple(got[1]), tuple(exp[1]))


def sym_macro(P, ex):
    with mbv.env():
        try:
            c = _case(P, ex)
        except AssertionError as e:
            ex.fail_here(f'macro {P["family"]} {P["arg"]} is not expanded: {e}')
        code, stack, exp = c[0], c[1], c[2]
        got = run(code, stack)
        if got[0] != exp[0]:
            ex.fail_here(f'macro {"fails" if got[0] == "fail" else "does not fail"} where the reference {"does not fail" if exp[0] == "ok" else "fails"}')
        ex.check(_eq_result(got, exp), 'resulting stack equals the reference meaning')
        if len(c) > 3:      # PAIR tree itself
            code2, exp2 = c[3]
            got2 = run(code2, stack)
            if got2[0] != 'ok':
                ex.fail_here('PAIR tree macro failed')
            ex.check(_eq_result(got2, exp2), 'PAIR tree macro builds the tree named by its letters')


def conc_macro(P, w):
    try:
        c = _case(P, dict(w))
    except AssertionError as e:
        return {'ok': False, 'observed': f'not expanded: {e}'}
    code, stack, exp = c[0], c[1], c[2]
    got = run(code, stack)
    ok = bool(_eq_result(got, exp))
    res = {'ok': ok, 'expansion': code, 'observed': repr(got), 'expected': repr(exp)}
    if ok and len(c) > 3:
        code2, exp2 = c[3]
        got2 = run(code2, stack)
        res['ok'] = bool(_eq_result(got2, exp2))
        res['observed'], res['expected'], res['expansion'] = repr(got2), repr(exp2), code2
    return res


# ---- annotation placement of PAIR-tree macros (type-level evaluation of the expansion) -----------------
def _eval_annots(code, stack):
    """stack items: ('leaf', i) | ('pair', (annot, item), (annot, item)); only PAIR and DIP occur in PAIR-tree expansions"""
    for ins in code:
        if isinstance(ins, list):
            stack = _eval_annots(ins, stack)
            continue
        prim, args, annots = ins['prim'], ins.get('args', []), ins.get('annots', [])
        if prim == 'PAIR':
            fa = [a for a in annots if a.startswith('%')]
            la = fa[0] if len(fa) > 0 else '%'
            ra = fa[1] if len(fa) > 1 else '%'
            stack = [('pair', (la, stack[0]), (ra, stack[1]))] + stack[2:]
        elif prim == 'DIP':
            n = int(args[0]['int']) if len(args) == 2 else 1
            body = args[-1]
            stack = stack[:n] + _eval_annots(body, stack[n:])
        else:
            raise AssertionError(f'unexpected instruction {prim} in a PAIR-tree expansion')
    return stack


def _leaf_annots(node, annot='%', out=None):
    out = {} if out is None else out
    if node[0] == 'leaf':
        out[node[1]] = annot
    else:
        _leaf_annots(node[1][1], node[1][0], out)
        _leaf_annots(node[2][1], node[2][0], out)
    return out


def conc_pxr_annots(P, w):
    name, n = P['arg'], P['n']
    k = int(w.get('k', P.get('k', n)))
    annots = ['%' + 'f' + str(i) for i in range(k)]
    try:
        code = expand(name, annots)
        res = _eval_annots(code, [('leaf', i) for i in range(n)] + [('leaf', 99)])
    except Exception as e:  # noqa
        return {'ok': False, 'observed': f'{type(e).__name__}: {e}'}
    got = _leaf_annots(res[0])
    exp = {i: (annots[i] if i < k else '%') for i in range(n)}
    got_n = {i: ('%' if a in ('%', '%@') else a) for i, a in got.items()}
    return {'ok': got_n == exp, 'macro': name, 'annots': annots, 'expansion': code, 'observed': got_n, 'expected': exp}


def sym_pxr_annots(P, ex):
    k = mbv._choose(ex, 'k', 0, P['n'])
    r = conc_pxr_annots(P, {'k': k})
    if not r['ok']:
        ex.fail_here(f'{P["arg"]} with {k} field annotations: leaves annotated {r.get("observed")}, expected {r.get("expected")}')
    ex.check(True)


def obligations(tier):
    q = tier == 'quick'
    t = 120 if q else 600
    obs = []

    def add(name, P, note):
        obs.append(Ob(name, 'bvx', sym_macro, conc_macro, P, timeout=t, bounds=note, targets=TARGETS))

    for fam, (_, args) in FAMILIES.items():
        for a in args:
            for annots in ([], ['@v']):
                if annots and fam not in ('CMP',):
                    continue
                add(f'{fam}{a or ""}' + ('+annot' if annots else ''), {'family': fam, 'arg': a, 'annots': annots}, 'all operand values symbolic')
    for n in range(2, 6):
        add(f'D{"I" * n}P', {'family': 'DIP', 'arg': n}, f'stack of {n + 1} symbolic values')
        add(f'D{"U" * n}P', {'family': 'DUP', 'arg': n}, f'stack of {n} symbolic values')
        if n <= 3:
            for inner in ('bare', 1, 2):
                add(f'D{"I" * n}P' + '{DIP' + ('' if inner == 'bare' else f' {inner}') + '}', {'family': 'DIP', 'arg': n, 'inner': inner},
                    'the code block is a single DIP / DIP k; symbolic stack')
    for name, tree in pair_trees(5 if q else 6):
        add(f'{name}+UN{name}', {'family': 'PXR', 'arg': name, 'tree': tree}, 'symbolic leaves; the tree built and UNPxR o PxR = identity')
        obs.append(Ob(f'{name}/annotation-placement', 'bvx', sym_pxr_annots, conc_pxr_annots, {'arg': name, 'n': _n_leaves(tree)}, timeout=t,
                      bounds='the first k field annotations (k solver-chosen, 0..number of leaves) go to the first k leaves of the tree, in order', targets=TARGETS))
        if _n_leaves(tree) == 3:
            add(f'{name}+annots', {'family': 'PXR', 'arg': name, 'tree': tree, 'annots': ['%a', '%b', '%c']}, 'same with field annotations')
    for p in _paths(2, 3 if q else 4):
        add(f'C{p}R', {'family': 'CXR', 'arg': p}, 'pair tree following the path, symbolic components')
        add(f'C{p}R+annot', {'family': 'CXR', 'arg': p, 'annots': ['%x']}, 'the same with a field annotation on the macro')
    for p in _paths(1, 3):
        add(f'SET_C{p}R', {'family': 'SET_CXR', 'arg': p}, 'pair tree following the path, symbolic components')
        add(f'MAP_C{p}R', {'family': 'MAP_CXR', 'arg': p}, 'pair tree following the path, body reads the stack below the pair')
        if len(p) <= 2:
            add(f'SET_C{p}R+annot', {'family': 'SET_CXR', 'arg': p, 'annots': ['%f']}, 'with a field annotation')
    return obs
