"""C14 Sets and maps behave like sorted dictionaries under any update history."""
from harness import mbv, mich
from harness.C03 import conc_literal, sym_literal
from vf.core import Ob

TARGETS = ['pytezos.michelson.types.set.SetType.add/remove/contains/check_constraints', 'pytezos.michelson.types.map.MapType.update/get/contains/check_constraints',
           'pytezos.michelson.instructions.struct.UpdateInstruction.execute', 'pytezos.michelson.instructions.struct.GetInstruction.execute',
           'pytezos.michelson.instructions.struct.GetAndUpdateInstruction.execute', 'pytezos.michelson.instructions.struct.MemInstruction.execute',
           'pytezos.michelson.instructions.generic.SizeInstruction.execute', 'pytezos.michelson.instructions.control.IterInstruction.execute',
           'pytezos.michelson.instructions.control.MapInstruction.execute']
STUBS = ['set(items) inside check_constraints -> duplicate elimination by __eq__', 'format_stdout -> no-op']
BOUNDS = {'quick': 'one operation from every valid collection of <= 3 entries (inductive step: covers histories of any length over collections within the size bound); '
                   'key types int, string(<=1), pair int int, option int, or int string; values unbounded ints',
          'thorough': 'collections of <= 4 entries; additionally pair int (pair nat int) and bytes keys'}
OUTSIDE = ['collections larger than the bound', 'big_map (C15)', 'MAP/ITER bodies other than the listed ones (instruction semantics are C01)']
ASSUMPTIONS = ['representation invariant = strictly increasing keys in the reference order (C03); the replay of every counterexample rebuilds the '
               'pre-state from EMPTY_SET/EMPTY_MAP by real UPDATE instructions, which checks that the invariant is reachable']

KEY_TYPES_Q = ['int', 'string', 'pair int int', 'option int', 'or int string']
KEY_TYPES_T = ['pair int (pair nat int)', 'bytes']


def _eq(a, b):
    return mbv.ref_cmp(a, b)[1]


def _member(x, items):
    from vf import bvx

    return bvx.sym_or(*[_eq(x, i) for i in items]) if items else False


def _kv_member(k, v, items):
    from vf import bvx

    return bvx.sym_or(*[bvx.sym_and(_eq(k, k0), mich.deq(mich.abstract(v), mich.abstract(v0))) for k0, v0 in items]) if items else False


def _sorted(keys):
    from vf import bvx

    return bvx.sym_and(*[mbv.ref_lt(keys[i], keys[i + 1]) for i in range(len(keys) - 1)]) if len(keys) > 1 else True


def _set_type(P):
    return mich.T({'prim': 'set', 'args': [mich.texpr(P['key'])]})


def _map_type(P):
    return mich.T({'prim': 'map', 'args': [mich.texpr(P['key']), mich.texpr(P.get('val', 'int'))]})


# ---- set ---------------------------------------------------------------------------------------
def sym_set_update(P, ex):
    from vf import bvx

    sty = _set_type(P)
    with mbv.env():
        s = mbv.sym_value(ex, sty, 's', 1, P['n'])
        k = mbv.sym_value(ex, sty.args[0], 'k', 1)
        flag = ex.bool('flag')
        pre = list(s.items)
        try:
            out = mich.run_instr(mich.I({'prim': 'UPDATE'}), [k, mich.mk('bool', flag), s])
        except mich.Failed as e:
            ex.fail_here(f'UPDATE on a set failed: {e}')
        r = out[0]
        res = list(r.items)
        ex.check(mich.type_expr(r) == mich.type_expr(s), 'UPDATE keeps the set type')
        ex.check(_sorted(res), 'set stays strictly sorted (hence duplicate free)')
        was = _member(k, pre)
        if flag:
            ex.check(_member(k, res), 'added element is present')
            ex.check(bvx.sym_and(*[_member(x, res) for x in pre]) if pre else True, 'old elements kept')
            ex.check(bvx.sym_and(*[bvx.sym_or(_eq(x, k), _member(x, pre)) for x in res]), 'nothing else appears')
            if len(res) == len(pre):
                ex.check(was, 'size unchanged only if the element was present')
            else:
                ex.check(bvx.sym_and(len(res) == len(pre) + 1, bvx.sym_not(was)), 'size grows by one for a new element')
        else:
            ex.check(bvx.sym_not(_member(k, res)), 'removed element is absent')
            ex.check(bvx.sym_and(*[bvx.sym_or(_eq(x, k), _member(x, res)) for x in pre]) if pre else True, 'other elements kept')
            ex.check(bvx.sym_and(*[_member(x, pre) for x in res]) if res else True, 'nothing appears')
        # MEM / SIZE on the result agree with the model
        mem = mich.run_instr(mich.I({'prim': 'MEM'}), [k, r])[0]
        ex.check(mem.value == flag, 'MEM after UPDATE')
        size = mich.run_instr(mich.I({'prim': 'SIZE'}), [r])[0]
        ex.check(size.value == len(res), 'SIZE')


def sym_set_mem_iter(P, ex):
    sty = _set_type(P)
    with mbv.env():
        s = mbv.sym_value(ex, sty, 's', 1, P['n'])
        k = mbv.sym_value(ex, sty.args[0], 'k', 1)
        pre = list(s.items)
        mem = mich.run_instr(mich.I({'prim': 'MEM'}), [k, s])[0]
        ex.check(mem.value == _member(k, pre), 'MEM agrees with the model')
        lst_t = mich.T({'prim': 'list', 'args': [mich.texpr(P['key'])]})
        out = mich.run_instr(mich.I({'prim': 'ITER', 'args': [[{'prim': 'CONS'}]]}), [s, lst_t([])])
        got = list(out[0].items)
        ex.check(len(got) == len(pre), 'ITER visits every element once')
        ok = True
        for x, y in zip(reversed(got), pre):
            ok = mich._and(ok, _eq(x, y))
        ex.check(ok, 'ITER visits elements in increasing order')


# ---- map ---------------------------------------------------------------------------------------
def sym_map_update(P, ex):
    from vf import bvx

    mty = _map_type(P)
    with mbv.env():
        m = mbv.sym_value(ex, mty, 'm', 1, P['n'])
        k = mbv.sym_value(ex, mty.args[0], 'k', 1)
        v = mbv.sym_value(ex, mich.T({'prim': 'option', 'args': [mich.texpr(P.get('val', 'int'))]}), 'v', 1)
        pre = list(m.items)
        op = P['op']
        try:
            out = mich.run_instr(mich.I({'prim': op}), [k, v, m])
        except mich.Failed as e:
            ex.fail_here(f'{op} on a map failed: {e}')
        if op == 'GET_AND_UPDATE':
            old, r = out[0], out[1]
            if old.item is None:
                ex.check(bvx.sym_not(_member(k, [x for x, _ in pre])), 'GET_AND_UPDATE returns None only for an absent key')
            else:
                ex.check(_kv_member(k, old.item, pre), 'GET_AND_UPDATE returns the previous binding')
            ex.check(mich.type_expr(old) == {'prim': 'option', 'args': [mich.texpr(P.get('val', 'int'))]}, 'type of the returned option')
        else:
            r = out[0]
        res = list(r.items)
        ex.check(mich.type_expr(r) == mich.type_expr(m), 'map type kept')
        ex.check(_sorted([x for x, _ in res]), 'map stays strictly sorted by key (hence duplicate free)')
        keys_pre = [x for x, _ in pre]
        if v.item is not None:
            ex.check(_kv_member(k, v.item, res), 'new binding present')
            ex.check(bvx.sym_and(*[bvx.sym_or(_eq(k0, k), _kv_member(k0, v0, res)) for k0, v0 in pre]) if pre else True, 'other bindings kept')
            ex.check(bvx.sym_and(*[bvx.sym_or(_eq(k0, k), _kv_member(k0, v0, pre)) for k0, v0 in res]), 'nothing else appears')
        else:
            ex.check(bvx.sym_not(_member(k, [x for x, _ in res])), 'removed key absent')
            ex.check(bvx.sym_and(*[bvx.sym_or(_eq(k0, k), _kv_member(k0, v0, res)) for k0, v0 in pre]) if pre else True, 'other bindings kept')
            ex.check(bvx.sym_and(*[_kv_member(k0, v0, pre) for k0, v0 in res]) if res else True, 'nothing appears')
        got = mich.run_instr(mich.I({'prim': 'GET'}), [k, r])[0]
        if v.item is None:
            ex.check(got.item is None, 'GET after removal')
        else:
            ex.check(got.item is not None and mich.deq(mich.abstract(got.item), mich.abstract(v.item)), 'GET after update')
        size = mich.run_instr(mich.I({'prim': 'SIZE'}), [r])[0]
        ex.check(size.value == len(res), 'SIZE')
        del keys_pre


def sym_map_read(P, ex):
    from vf import bvx

    mty = _map_type(P)
    with mbv.env():
        m = mbv.sym_value(ex, mty, 'm', 1, P['n'])
        k = mbv.sym_value(ex, mty.args[0], 'k', 1)
        pre = list(m.items)
        got = mich.run_instr(mich.I({'prim': 'GET'}), [k, m])[0]
        mem = mich.run_instr(mich.I({'prim': 'MEM'}), [k, m])[0]
        present = _member(k, [x for x, _ in pre])
        if got.item is None:
            ex.check(bvx.sym_not(present), 'GET None only for an absent key')
        else:
            ex.check(_kv_member(k, got.item, pre), 'GET returns the binding')
        ex.check(mem.value == present, 'MEM agrees with the model')
        # MAP { CDR ; PUSH int 1 ; ADD } keeps keys and order, transforms values, keeps the key type
        body = [{'prim': 'CDR'}, {'prim': 'PUSH', 'args': [{'prim': 'int'}, {'int': '1'}]}, {'prim': 'ADD'}]
        out = mich.run_instr(mich.I({'prim': 'MAP', 'args': [body]}), [m])[0]
        res = list(out.items)
        ex.check(len(res) == len(pre), 'MAP keeps the number of bindings')
        ok = True
        for (k1, v1), (k0, v0) in zip(res, pre):
            ok = mich._and(ok, mich._and(mich.deq(mich.abstract(k1), mich.abstract(k0)), v1.value == v0.value + 1))
        ex.check(ok, 'MAP keeps keys/order and applies the body to each value')
        ex.check(mich.type_expr(out) == mich.type_expr(m), 'MAP keeps the key type (and here the value type)')
        # ITER order
        lst_t = mich.T({'prim': 'list', 'args': [{'prim': 'pair', 'args': [mich.texpr(P['key']), {'prim': 'int'}]}]})
        it = mich.run_instr(mich.I({'prim': 'ITER', 'args': [[{'prim': 'CONS'}]]}), [m, lst_t([])])[0]
        got_it = list(it.items)
        ok = len(got_it) == len(pre)
        for x, (k0, v0) in zip(reversed(got_it), pre):
            ok = mich._and(ok, mich.deq(mich.abstract(x), ('pair', mich.abstract(k0), mich.abstract(v0))))
        ex.check(ok, 'ITER visits bindings in increasing key order')


# ---- concrete replay: rebuild the pre-state by real instructions, compare with a Python model ------
def _build_set(sty, elems):
    s = mich.run_instr(mich.I({'prim': 'EMPTY_SET', 'args': [sty.args[0].as_micheline_expr()]}), [])[0]
    for e in elems:
        s = mich.run_instr(mich.I({'prim': 'UPDATE'}), [e, mich.mk('bool', True), s])[0]
    return s


def _build_map(mty, items):
    m = mich.run_instr(mich.I({'prim': 'EMPTY_MAP', 'args': [mty.args[0].as_micheline_expr(), mty.args[1].as_micheline_expr()]}), [])[0]
    for k, v in items:
        m = mich.run_instr(mich.I({'prim': 'UPDATE'}), [k, mich.some(v), m])[0]
    return m


def _model_sorted(keys):
    import functools

    return sorted(keys, key=functools.cmp_to_key(mbv.conc_cmp))


def conc_set(P, w):
    sty = _set_type(P)
    pre = mbv.conc_value(sty, w, 's')
    k = mbv.conc_value(sty.args[0], w, 'k')
    try:
        s = _build_set(sty, list(reversed(pre.items)))
        model = [mich.abstract(x) for x in _model_sorted(list(pre.items))]
        if [mich.abstract(x) for x in s.items] != model:
            return {'ok': False, 'observed': repr(s), 'expected': 'sorted ' + repr(model), 'stage': 'building the pre-state with UPDATE'}
        if 'flag' in w:
            flag = bool(w['flag'])
            r = mich.run_instr(mich.I({'prim': 'UPDATE'}), [k, mich.mk('bool', flag), s])[0]
            keys = [x for x in pre.items if mbv.conc_cmp(x, k) != 0] + ([k] if flag else [])
            exp = [mich.abstract(x) for x in _model_sorted(keys)]
            got = [mich.abstract(x) for x in r.items]
            mem = mich.run_instr(mich.I({'prim': 'MEM'}), [k, r])[0].value
            size = mich.run_instr(mich.I({'prim': 'SIZE'}), [r])[0].value
            return {'ok': got == exp and mem == flag and size == len(exp), 'observed': [repr(r), mem, size], 'expected': repr(exp)}
        mem = mich.run_instr(mich.I({'prim': 'MEM'}), [k, s])[0].value
        lst_t = mich.T({'prim': 'list', 'args': [mich.texpr(P['key'])]})
        it = mich.run_instr(mich.I({'prim': 'ITER', 'args': [[{'prim': 'CONS'}]]}), [s, lst_t([])])[0]
        exp_mem = any(mbv.conc_cmp(x, k) == 0 for x in pre.items)
        ok = mem == exp_mem and [mich.abstract(x) for x in reversed(it.items)] == model
        return {'ok': ok, 'observed': [mem, repr(it)], 'expected': [exp_mem, repr(model)]}
    except mich.Failed as e:
        return {'ok': False, 'observed': f'failed: {e}'}


def conc_map(P, w):
    mty = _map_type(P)
    pre = mbv.conc_value(mty, w, 'm')
    k = mbv.conc_value(mty.args[0], w, 'k')
    try:
        m = _build_map(mty, list(reversed(pre.items)))
        model = {repr(mich.abstract(x)): (x, v) for x, v in pre.items}
        order = _model_sorted([x for x, _ in pre.items])
        if [mich.abstract(x) for x, _ in m.items] != [mich.abstract(x) for x in order]:
            return {'ok': False, 'observed': repr(m), 'expected': repr(order), 'stage': 'building the pre-state with UPDATE'}
        if 'op' in P:
            v = mbv.conc_value(mich.T({'prim': 'option', 'args': [mich.texpr(P.get('val', 'int'))]}), w, 'v')
            out = mich.run_instr(mich.I({'prim': P['op']}), [k, v, m])
            r = out[-1]
            old_exp = next((val for x, val in pre.items if mbv.conc_cmp(x, k) == 0), None)
            items = [(x, val) for x, val in pre.items if mbv.conc_cmp(x, k) != 0] + ([(k, v.item)] if v.item is not None else [])
            exp_keys = _model_sorted([x for x, _ in items])
            exp = [(mich.abstract(x), next(mich.abstract(val) for y, val in items if mbv.conc_cmp(x, y) == 0)) for x in exp_keys]
            got = [(mich.abstract(x), mich.abstract(val)) for x, val in r.items]
            ok = got == exp
            if P['op'] == 'GET_AND_UPDATE':
                old = out[0]
                ok = ok and ((old.item is None) == (old_exp is None)) and (old.item is None or mich.abstract(old.item) == mich.abstract(old_exp))
            g = mich.run_instr(mich.I({'prim': 'GET'}), [k, r])[0]
            ok = ok and ((g.item is None) == (v.item is None)) and (g.item is None or mich.abstract(g.item) == mich.abstract(v.item))
            return {'ok': ok, 'observed': repr(out), 'expected': repr(exp)}
        got = mich.run_instr(mich.I({'prim': 'GET'}), [k, m])[0]
        mem = mich.run_instr(mich.I({'prim': 'MEM'}), [k, m])[0].value
        exp = next((val for x, val in pre.items if mbv.conc_cmp(x, k) == 0), None)
        ok = mem == (exp is not None) and ((got.item is None) == (exp is None)) and (exp is None or got.item.value == exp.value)
        body = [{'prim': 'CDR'}, {'prim': 'PUSH', 'args': [{'prim': 'int'}, {'int': '1'}]}, {'prim': 'ADD'}]
        out = mich.run_instr(mich.I({'prim': 'MAP', 'args': [body]}), [m])[0]
        exp_map = [(mich.abstract(x), ('int', next(val.value for y, val in pre.items if mbv.conc_cmp(x, y) == 0) + 1)) for x in order]
        ok = ok and [(mich.abstract(x), mich.abstract(val)) for x, val in out.items] == exp_map and mich.type_expr(out) == mich.type_expr(m)
        lst_t = mich.T({'prim': 'list', 'args': [{'prim': 'pair', 'args': [mich.texpr(P['key']), {'prim': 'int'}]}]})
        it = mich.run_instr(mich.I({'prim': 'ITER', 'args': [[{'prim': 'CONS'}]]}), [m, lst_t([])])[0]
        exp_it = [('pair', mich.abstract(x), mich.abstract(next(val for y, val in pre.items if mbv.conc_cmp(x, y) == 0))) for x in order]
        ok = ok and [mich.abstract(x) for x in reversed(it.items)] == exp_it
        return {'ok': ok, 'observed': [repr(got), mem, repr(out), mich.type_expr(out), repr(it)], 'expected': [repr(exp), repr(exp_map)]}
    except mich.Failed as e:
        return {'ok': False, 'observed': f'failed: {e}'}


def obligations(tier):
    q = tier == 'quick'
    t = 120 if q else 1200
    n = 3 if q else 4
    keys = KEY_TYPES_Q + ([] if q else KEY_TYPES_T)
    obs = []
    for key in keys:
        nn = n if key in ('int', 'string', 'bytes') else (n - 1 if q else n)
        P = {'key': key, 'n': nn}
        obs.append(Ob(f'set/UPDATE/{key}', 'bvx', sym_set_update, conc_set, dict(P), timeout=t,
                      bounds=f'any valid set of <= {nn} elements of {key}, any element, add or remove', targets=TARGETS))
        obs.append(Ob(f'set/MEM+ITER/{key}', 'bvx', sym_set_mem_iter, conc_set, dict(P), timeout=t,
                      bounds=f'any valid set of <= {nn} elements of {key}', targets=TARGETS))
        for op in ('UPDATE', 'GET_AND_UPDATE'):
            obs.append(Ob(f'map/{op}/{key}', 'bvx', sym_map_update, conc_map, dict(P, op=op), timeout=t,
                          bounds=f'any valid map of <= {nn} bindings {key} -> int, any key, Some v or None', targets=TARGETS))
        obs.append(Ob(f'map/GET+MEM+MAP+ITER/{key}', 'bvx', sym_map_read, conc_map, dict(P), timeout=t,
                      bounds=f'any valid map of <= {nn} bindings {key} -> int', targets=TARGETS))
    for val in ('bool', 'string', 'list int', 'option int'):
        for op in ('UPDATE', 'GET_AND_UPDATE'):
            obs.append(Ob(f'map/{op}/int->{val}', 'bvx', sym_map_update, conc_map, {'key': 'int', 'n': 2, 'op': op, 'val': val}, timeout=t,
                          bounds=f'any valid map of <= 2 bindings int -> {val} (values that are falsy in Python included), any key, Some v or None',
                          targets=TARGETS))
    for key in ('int', 'pair int int', 'or int string'):
        for kind in ('set', 'map'):
            obs.append(Ob(f'literal/{kind}/{key}/n=3', 'bvx', sym_literal, conc_literal,
                          {'type': key, 'n': 3, 'kind': kind, 'maxlen': 1}, timeout=t,
                          bounds=f'{kind} literal of 3 symbolic elements of {key}: accepted iff strictly increasing', targets=TARGETS))
    return obs
