"""C13 Entrypoint resolution and parameter decoding are mutual inverses."""
from harness import mbv, mich
from vf.core import Ob

TARGETS = ['pytezos.michelson.sections.parameter.ParameterSection.create_type', 'pytezos.michelson.sections.parameter.ParameterSection.list_entrypoints',
           'pytezos.michelson.sections.parameter.ParameterSection.from_parameters', 'pytezos.michelson.sections.parameter.ParameterSection.to_parameters',
           'pytezos.michelson.types.sum.OrType.iter_type_args', 'pytezos.michelson.types.sum.OrType.iter_values',
           'pytezos.michelson.types.adt.get_type_layout', 'pytezos.michelson.types.adt.wrap_parameters']
STUBS = ['str(int)/int(str) -> opaque decimal token']
BOUNDS = {'quick': 'union trees of depth <= 2 (4 shapes, up to 4 leaves) + non-union roots; every subset of nodes annotated (distinct names), one of them optionally named '
                   '"default" or "root", root optionally annotated; leaf values symbolic (ints unbounded, strings <= 1, lists/sets <= 1 incl. empty, options, bools); Left/Right path symbolic',
          'thorough': 'adds the depth-3 comb-like shapes with 5 leaves'}
OUTSIDE = ['duplicate entrypoint names (rejected by Tezos)', 'deeper trees']
ASSUMPTIONS = ['entrypoints = annotated union nodes/leaves reachable through unions only, plus the root under its own annotation, else "default", else "root" when "default" is taken']

LEAF_TYPES = ['int', 'list nat', 'string', 'bytes', 'unit', 'option bool', 'nat', 'set int']     # incl. leaves whose Micheline can be an empty sequence / falsy in Python
# shapes as nested tuples; leaves are None
SHAPES = {
    'or(L,L)': (None, None),
    'or(or(L,L),L)': ((None, None), None),
    'or(L,or(L,L))': (None, (None, None)),
    'or(or(L,L),or(L,L))': ((None, None), (None, None)),
}
SHAPES_T = {
    'or(L,or(L,or(L,L)))': (None, (None, (None, None))),
}


def nodes_of(shape, path=''):
    """paths of all non-root nodes in pre-order"""
    out = []
    if shape is None:
        return out
    for i, s in enumerate(shape):
        p = path + str(i)
        out.append(p)
        out.extend(nodes_of(s, p))
    return out


def build_type(shape, names, path='', leaf_counter=None):
    """Micheline type expression of the or-tree with field annotations from `names` (path -> name)."""
    if leaf_counter is None:
        leaf_counter = [0]
    if shape is None:
        t = dict(mich.texpr(LEAF_TYPES[leaf_counter[0] % len(LEAF_TYPES)]))
        leaf_counter[0] += 1
    else:
        t = {'prim': 'or', 'args': [build_type(s, names, path + str(i), leaf_counter) for i, s in enumerate(shape)]}
    if names.get(path):
        t['annots'] = ['%' + names[path]]
    return t


def sub_expr(texpr, path):
    for ch in path:
        texpr = texpr['args'][int(ch)]
    return texpr


def ref_entrypoints(texpr, shape, names):
    """name -> (path, type expr without annotations)"""
    eps = {}
    for p in nodes_of(shape):
        if names.get(p):
            eps[names[p]] = p
    root = names.get('') or ('root' if 'default' in eps else 'default')
    eps[root] = ''
    return {k: (v, mich.strip_annots(sub_expr(texpr, v))) for k, v in eps.items()}, root


def decode_config(shape, cfg):
    """cfg: dict with 'mask' (bit per non-root node), 'special' (0 none, 1 default, 2 root), 'where' (index among annotated), 'rootann' (0/1)."""
    nodes = nodes_of(shape)
    names = {}
    annotated = [p for i, p in enumerate(nodes) if (cfg['mask'] >> i) & 1]
    for i, p in enumerate(annotated):
        names[p] = 'e' + str(i)
    if cfg['special'] and annotated:
        names[annotated[cfg['where'] % len(annotated)]] = {1: 'default', 2: 'root'}[cfg['special']]
    if cfg['rootann']:
        names[''] = 'main'
    return names


def param_cls(texpr):
    from pytezos.michelson.sections.parameter import ParameterSection

    return ParameterSection.match({'prim': 'parameter', 'args': [texpr]})


def wrap(value_expr, path):
    for ch in reversed(path):
        value_expr = {'prim': 'Left' if ch == '0' else 'Right', 'args': [value_expr]}
    return value_expr


def check_all(shape, names, value_of, ex=None, pick=None):
    """Core of the property for one parameter type.  value_of(type_class, tag) -> a value of that type (symbolic or concrete).
    Returns (ok, detail)."""
    texpr = build_type(shape, names) if shape != 'leaf' else ({'prim': 'nat', 'annots': ['%' + names['']]} if names.get('') else {'prim': 'nat'})
    cls = param_cls(texpr)
    if shape == 'leaf':
        ref, root = {(names.get('') or 'default'): ('', {'prim': 'nat'})}, (names.get('') or 'default')
    else:
        ref, root = ref_entrypoints(texpr, shape, names)
    got = cls.list_entrypoints()
    got_n = {k: mich.strip_annots(v.as_micheline_expr()) for k, v in got.items()}
    exp_n = {k: t for k, (p, t) in ref.items()}
    if got_n != exp_n:
        return False, f'list_entrypoints {got_n} != {exp_n}'
    # every full value: to_parameters / from_parameters round trip
    root_type = cls.args[0]
    v = value_of(root_type, 'full')
    full = cls(v)
    try:
        params = full.to_parameters()
    except Exception as e:  # noqa
        return False, f'to_parameters failed on {mich.abstract(v)!r}: {type(e).__name__}: {e}'
    if params['entrypoint'] not in exp_n:
        return False, f'to_parameters names an unlisted entrypoint {params["entrypoint"]}'
    try:
        back = cls.from_parameters(params)
    except Exception as e:  # noqa
        return False, f'from_parameters(to_parameters(v)) failed: {type(e).__name__}: {e}'
    eq = mich.deq(mich.abstract(back.item), mich.abstract(v))
    if ex is not None:
        ex.check(eq, 'from_parameters(to_parameters(v)) == v')
    elif not eq:
        return False, f'round trip changed the value: {params}'
    # every listed entrypoint with an argument (one per path, chosen by the solver)
    items = sorted(ref.items())
    if pick is not None:
        items = [items[pick(len(items))]]
    for name, (path, targ) in items:
        arg_t = mich.T(targ)
        a = value_of(arg_t, 'arg:' + name)
        try:
            a_expr = a.to_micheline_value()
            built = cls.from_parameters({'entrypoint': name, 'value': a_expr})
        except Exception as e:  # noqa
            return False, f'from_parameters({name}) failed: {type(e).__name__}: {e}'
        exp_full = root_type.from_micheline_value(wrap(a_expr, path))
        eq = mich.deq(mich.abstract(built.item), mich.abstract(exp_full))
        if ex is not None:
            ex.check(eq, f'calling entrypoint {name} builds the value at its path')
        elif not eq:
            return False, f'from_parameters({name}) built {mich.abstract(built.item)!r}'
        try:
            p2 = built.to_parameters()
            again = cls.from_parameters(p2)
        except Exception as e:  # noqa
            return False, f'round trip of the value built for entrypoint {name} failed: {type(e).__name__}: {e}'
        eq = mich.deq(mich.abstract(again.item), mich.abstract(built.item))
        if ex is not None:
            ex.check(eq, f'value built for {name} round-trips')
        elif not eq:
            return False, f'value built for {name} does not round-trip'
    return True, ''


def sym_shape(P, ex):
    shape = P['shape']
    nn = len(nodes_of(shape)) if shape != 'leaf' else 0
    mask = mbv._choose(ex, 'mask', 0, (1 << nn) - 1) if nn else 0
    special = P.get('special', 0) if nn else 0
    nann = bin(mask).count('1')
    if special and not nann:
        from vf import bvx

        raise bvx.Abort()
    cfg = {'mask': mask, 'special': special,
           'where': mbv._choose(ex, 'where', 0, nann - 1) if (special and nann > 1) else 0,
           'rootann': P.get('rootann', 0)}
    names = decode_config(shape, cfg) if shape != 'leaf' else ({'': 'main'} if cfg['rootann'] else {})
    counter = [0]

    def value_of(ty, tag):
        counter[0] += 1
        return mbv.sym_value(ex, ty, f'{tag}#{counter[0]}', 1, 1)

    with mbv.env():
        ok, detail = check_all(shape, names, value_of, ex, pick=lambda n: mbv._choose(ex, 'entrypoint', 0, n - 1))
        if not ok:
            ex.fail_here(detail)
        ex.check(True)


def conc_shape(P, w):
    shape = P['shape']
    nn = len(nodes_of(shape)) if shape != 'leaf' else 0
    cfg = {'mask': int(w.get('mask', 0)), 'special': P.get('special', 0), 'where': int(w.get('where', 0)), 'rootann': P.get('rootann', 0)}
    names = decode_config(shape, cfg) if shape != 'leaf' else ({'': 'main'} if cfg['rootann'] else {})
    counter = [0]

    def value_of(ty, tag):
        counter[0] += 1
        return mbv.conc_value(ty, _W(w), f'{tag}#{counter[0]}')

    texpr = build_type(shape, names) if shape != 'leaf' else None
    try:
        ok, detail = check_all(shape, names, value_of, pick=(lambda n: int(w['entrypoint'])) if 'entrypoint' in w else None)
    except Exception as e:  # noqa
        ok, detail = False, f'{type(e).__name__}: {e}'
    del nn
    return {'ok': ok, 'parameter_type': texpr, 'observed': detail}


class _W(dict):
    """witness with defaults for variables the failing path never created"""

    def __init__(self, w):
        super().__init__(w)

    def __missing__(self, k):
        if k.endswith('#len') or k.endswith('#some') or k.endswith('#right') or k.endswith('#n'):
            return 0
        return 0 if not k.endswith(']') else b''

    def __contains__(self, k):
        return True


def obligations(tier):
    q = tier == 'quick'
    shapes = dict(SHAPES)
    if not q:
        shapes.update(SHAPES_T)
    obs = [Ob(f'non-union-root/rootann={r}', 'bvx', sym_shape, conc_shape, {'shape': 'leaf', 'rootann': r}, timeout=60,
              bounds='parameter nat, with/without a root annotation', targets=TARGETS) for r in (0, 1)]
    for name, shape in shapes.items():
        for special in (0, 1, 2):
            for rootann in (0, 1):
                if q and len(nodes_of(shape)) >= 6 and (special == 2 or rootann == 1):
                    continue        # the 4-leaf shape is explored in full only in the thorough tier
                if name in SHAPES_T and (special or rootann):
                    continue        # the deeper shape: plain configuration only (sized by wall time)
                obs.append(Ob(f'union/{name}/special={["-", "default", "root"][special]}/rootann={rootann}', 'bvx', sym_shape, conc_shape,
                              {'shape': shape, 'special': special, 'rootann': rootann}, timeout=300 if q else 1800,
                              bounds='every subset of nodes annotated (solver-chosen mask), position of the special name, entrypoint called, '
                                     'Left/Right path and leaf values all symbolic', targets=TARGETS))
    return obs
