#!/usr/bin/env python3
"""Prints the prompt given to an independent sub-agent that seeds a property-breaking change."""
import json, sys, os
ROOT = os.path.dirname(os.path.dirname(os.path.abspath(__file__)))
pid = sys.argv[1]
wt = f'/tmp/seed_wt/{pid}'
out = f'/tmp/seed_out/{pid}'
p = next(json.loads(l) for l in open(os.path.join(ROOT, 'properties.jsonl')) if json.loads(l)['id'] == pid)
print(f"""You are helping to evaluate a verification effort for the Python library baking-bad/pytezos (a Tezos SDK).
Your job: produce TWO independent, realistic code changes ("seeded defects") to pytezos, each of which breaks the
semantic property below while the library still imports and its existing test suite still passes.

PROPERTY {pid}: {p['title']}
Statement: {p['statement']}
Quantified over: {p['quantifier']['text']}
Relevant files: {', '.join(p['anchors']['files'])}

Working copy: a scratch git worktree of the repository at {wt} (already created for you; branch-less checkout of the
current HEAD). Work ONLY inside {wt} and {out}. Never touch /repo or /verif (do not read /verif either).
Python: /venv/bin/python. IMPORTANT: pytezos is installed in editable mode pointing at /repo/src, so to import YOUR
copy always run with PYTHONPATH={wt}/src, e.g.
  cd {wt} && PYTHONPATH={wt}/src /venv/bin/python -m pytest -q -p no:cacheprovider --timeout=900 -n 6 tests
(The sandbox has no network: some integration/sandbox tests fail on the unmodified tree too. What matters is that the
set of passing tests is the same with and without your change. First record the baseline pass/fail set on the
unmodified worktree, then compare after each change; running only the test directories relevant to the files you
touch plus tests/unit_tests is fine for iteration, but run the whole suite once per final change.)

Requirements for each of the two changes:
 * It is a plausible mistake or "refactoring"/"optimisation" a developer could make (off-by-one, wrong comparison,
   swapped operands, forgotten special case, wrong table entry, stale state, wrong order of two steps, ...), small
   (a few lines), in the library source under src/pytezos (NOT in tests).
 * It must need something SPECIFIC to manifest - a particular unusual input value or shape, a boundary value, a
   multi-step sequence of operations, a particular fault/response sequence, or two cooperating sites that each
   look fine alone. Ordinary use must not expose it at once, and the existing tests must still pass.
 * The two changes should be in different functions / exercise different aspects of the property.
 * Provide a demonstration: a small standalone Python program (not using pytest fixtures, no network) that exits 0
   on the unmodified tree and exits non-zero (assertion failure) with the change applied, when run as
   PYTHONPATH=<tree>/src /venv/bin/python demo.py

Deliverables, written to {out}/1/ and {out}/2/ (create the directories):
   patch.diff   - output of `git -C {wt} diff` for that change alone (apply-able with `git apply` on the clean tree)
   demo.py      - the demonstration program
   meta.json    - {{"property": "{pid}", "summary": "...what was changed...", "needs": "...what it needs in order to
                   manifest...", "tests_run": "...the pytest command(s) you ran and the pass/fail counts before/after..."}}
NEVER use `git stash` (the stash is shared between worktrees of other people working in parallel); save diffs to files instead.
Between the two changes reset the worktree (`git -C {wt} checkout -- .`). When finished leave the worktree clean.
Do not spend effort on anything else; reply with a 5-line summary of the two changes.""")
