"""C05 Micheline binary encoding round-trips and decodes strictly."""
import glob
import json
import os

from vf.core import Ob

TARGETS = ['pytezos.michelson.forge.forge_int', 'pytezos.michelson.forge.unforge_int', 'pytezos.michelson.forge.forge_nat',
           'pytezos.michelson.forge.forge_array', 'pytezos.michelson.forge.unforge_array',
           'pytezos.michelson.forge.forge_micheline', 'pytezos.michelson.forge.unforge_micheline',
           'pytezos.michelson.forge.get_tag', 'pytezos.michelson.forge.read_tag',
           'pytezos.michelson.tags.prim_tags', 'pytezos.michelson.forge.prim_int']
STUBS = ['prim_tags/prim_int -> symbolic bijection proxy on the contiguous protocol range (justified by the concrete `tables` obligation)',
         'str(int)/int(str) -> opaque decimal token (bijection contract of the builtins)', 'bytes.hex/bytes.fromhex, str.encode/bytes.decode (ASCII) -> opaque wrappers']
BOUNDS = {'quick': 'integers |v| < 2^118 (W=128); every byte string of length 1..6; tree shapes with <= 6 nodes, text/bytes leaves <= 3 bytes',
          'thorough': 'integers |v| < 2^1014 (W=1024); every byte string of length 1..8; tree shapes with <= 8 nodes'}
OUTSIDE = ['text that is not ASCII (utf-8 decoding of symbolic bytes)', 'trees deeper/larger than the listed shapes',
           'byte strings longer than the bound (except the shape-derived truncation/extension/length obligations)']
ASSUMPTIONS = ['reference = ref/michbin.py, written from the Octez Micheline/Zarith encoding; validated on the 20 mainnet scripts of tests/contract_tests on every run',
               'the single byte 0x40 (negative zero) is accepted as 0 by both (not demanded either way)']

FORGE_PATH = '/repo/src/pytezos/michelson/forge.py'
VALIDATED = 0


# ---- engine-side helpers ----------------------------------------------------------------------
_F = None


def _load_forge():
    """Re-instantiate pytezos.michelson.forge from the current source with shadowed builtins + table proxies."""
    global _F
    if _F is None:
        _F = _load_forge_uncached()
    return _F


def _load_forge_uncached():
    from ref import michbin
    from vf import bvx

    F = bvx.load_module(FORGE_PATH, 'bvx_forge')
    real_int = dict(F.prim_int)
    real_tags = dict(F.prim_tags)
    n = 0
    while n in real_int and real_tags.get(real_int[n]) == bytes([n]):
        n += 1
    sparse = sorted(k for k in real_int if k >= n)

    class PrimInt:
        def __getitem__(self, tag):
            if isinstance(tag, bvx.SymInt):
                if tag >= 0 and tag < n:
                    return michbin.Prim(tag)
                for k in sparse:
                    if tag == k:
                        return real_int[k]
                raise KeyError('prim tag')
            return real_int[tag]

        def __contains__(self, tag):
            try:
                self[tag]
                return True
            except KeyError:
                return False

    class PrimTags:
        def __getitem__(self, p):
            if isinstance(p, michbin.Prim):
                return bvx.SymBytes([p.tag])
            return real_tags[p]

        def __contains__(self, p):
            return isinstance(p, michbin.Prim) or p in real_tags

        def get(self, p, d=None):
            return self[p] if p in self else d

    F.prim_int = PrimInt()
    F.prim_tags = PrimTags()
    return F


def deq(a, b):
    """Deep structural equality of Micheline trees holding proxies; returns bool or SymBool."""
    from vf import bvx

    if isinstance(a, dict) and isinstance(b, dict):
        # {'annots': []} / {'args': []} denote the same expression as the absent key
        a = {k: v for k, v in a.items() if not (k in ('annots', 'args') and isinstance(v, list) and not v)}
        b = {k: v for k, v in b.items() if not (k in ('annots', 'args') and isinstance(v, list) and not v)}
        if set(a.keys()) != set(b.keys()):
            return False
        return bvx.sym_and(*[deq(a[k], b[k]) for k in a]) if a else True
    if isinstance(a, list) and isinstance(b, list):
        if len(a) != len(b):
            return False
        return bvx.sym_and(*[deq(x, y) for x, y in zip(a, b)]) if a else True
    if isinstance(a, (dict, list)) or isinstance(b, (dict, list)):
        return False
    r = a == b
    if r is NotImplemented:
        return False
    return r


# ---- obligations: integers --------------------------------------------------------------------
def sym_int(P, ex):
    from ref import michbin
    from vf import bvx

    F = _load_forge()
    v = ex.bv('v')
    lim = 1 << (ex.W - 10)
    ex.assume((v > -lim) & (v < lim))
    bvx.apply_regions(ex, {'v': v}, P)
    enc = F.forge_int(v)
    ref = michbin.encode_items({'int': bvx.DecStr(v)})[1:]
    ex.check(enc == bvx.SymBytes(ref), 'forge_int(v) equals the reference Zarith encoding')
    val, ln = F.unforge_int(enc)
    ex.check((val == v) & (ln == len(enc)), 'unforge_int(forge_int(v)) == (v, len)')
    # decoding continues correctly when followed by other data
    val2, ln2 = F.unforge_int(enc + bvx.SymBytes([ex.byte('t0'), ex.byte('t1')]))
    ex.check((val2 == v) & (ln2 == len(enc)), 'unforge_int ignores what follows the last group')


def conc_int(P, w):
    from pytezos.michelson import forge as F
    from ref import michbin

    v = int(w['v'])
    enc = F.forge_int(v)
    ref = bytes(michbin.enc_z(v))
    val, ln = F.unforge_int(enc)
    val2, ln2 = F.unforge_int(enc + bytes([w.get('t0', 0), w.get('t1', 0)]))
    ok = enc == ref and (val, ln) == (v, len(enc)) and (val2, ln2) == (v, len(enc))
    return {'ok': ok, 'observed': {'enc': enc.hex(), 'dec': [str(val), ln], 'dec_with_tail': [str(val2), ln2]}, 'expected': ref.hex()}


def sym_nat(P, ex):
    from ref import michbin
    from vf import bvx

    F = _load_forge()
    v = ex.bv('v')
    ex.assume((v >= 0) & (v < (1 << (ex.W - 10))))
    bvx.apply_regions(ex, {'v': v}, P)
    enc = F.forge_nat(v)
    ex.check(enc == bvx.SymBytes(michbin.enc_n(v)), 'forge_nat(v) equals the reference encoding')
    val, pos = michbin.dec_n(list(enc.items), 0)
    ex.check((val == v) & (pos == len(enc)), 'reference decoder inverts forge_nat')


def conc_nat(P, w):
    from pytezos.michelson import forge as F
    from ref import michbin

    v = int(w['v'])
    enc = F.forge_nat(v)
    ref = bytes(michbin.enc_n(v))
    return {'ok': enc == ref, 'observed': enc.hex(), 'expected': ref.hex()}


def sym_nat_negative(P, ex):
    F = _load_forge()
    v = ex.bv('v')
    ex.assume((v < 0) & (v > -(1 << (ex.W - 10))))
    try:
        F.forge_nat(v)
    except ValueError:
        ex.check(True)
        return
    ex.check(False, 'forge_nat rejects negative numbers')


def conc_nat_negative(P, w):
    from pytezos.michelson import forge as F

    try:
        F.forge_nat(int(w['v']))
    except ValueError:
        return {'ok': True}
    return {'ok': False, 'observed': 'accepted'}


# ---- obligations: every byte string of length n -------------------------------------------------
def sym_buffer(P, ex):
    """Differential decoding of an arbitrary buffer: pytezos accepts iff the reference accepts, results equal,
    and re-encoding the accepted tree gives the reference encoding."""
    from ref import michbin
    from vf import bvx

    F = _load_forge()
    n = P['n']
    data = ex.bytes('data', n)
    if 'first' in P:
        ex.assume(data[0] == P['first'])
    bvx.apply_regions(ex, {'data': data}, P)
    try:
        ref = michbin.decode(data, symbolic_prims=True)
        ref_ok = True
    except michbin.Reject:
        ref, ref_ok = None, False
    try:
        got = F.unforge_micheline(data)
        ok = True
    except bvx.Abort:
        raise
    except (bvx.Found, bvx.Inconclusive):
        raise
    except Exception:
        got, ok = None, False
    if ok != ref_ok:
        ex.fail_here('pytezos accepts a byte string Tezos rejects' if ok else 'pytezos rejects a valid encoding')
    if ok:
        ex.check(deq(got, ref), 'decoded expression equals the reference decoding')
        again = F.forge_micheline(got)
        ex.check(again == michbin.encode(ref), 'forge_micheline(decoded) equals the reference encoding')
    else:
        ex.check(True)


def conc_buffer(P, w):
    from pytezos.michelson import forge as F
    from ref import michbin

    data = bytes(w['data']) + bytes(P.get('tail', []))
    try:
        ref = michbin.decode(data)
        ref_ok = True
    except michbin.Reject as e:
        ref, ref_ok = str(e), False
    except michbin.OutsideClaim:
        return {'ok': True, 'note': 'outside the claim (non-ASCII)'}
    try:
        got = F.unforge_micheline(data)
        ok = True
    except Exception as e:  # noqa
        got, ok = f'{type(e).__name__}: {e}', False
    res = ok == ref_ok
    if ok and ref_ok:
        res = got == ref and F.forge_micheline(got) == michbin.encode(ref)
    return {'ok': res, 'data': data.hex(), 'observed': got if ok else f'rejected ({got})', 'expected': ref if ref_ok else f'rejected ({ref})'}


# ---- obligations: tree shapes with symbolic leaves ----------------------------------------------
def _leaf(ex, kind, name, n=2):
    from vf import bvx

    if kind == 'int':
        v = ex.bv(name)
        lim = 1 << min(ex.W - 10, n if n > 3 else ex.W)
        ex.assume((v > -lim) & (v < lim))
        return {'int': bvx.DecStr(v)}
    if kind == 'string':
        b = ex.bytes(name, n)
        for it in b.items:
            ex.assume(it < 0x80)
        return {'string': bvx.SymStr(b)}
    if kind == 'bytes':
        return {'bytes': bvx.SymHex(ex.bytes(name, n))}
    raise ValueError(kind)


def _annot(ex, name, n=2):
    from vf import bvx

    b = ex.bytes(name, n)
    for it in b.items:
        ex.assume((it < 0x80) & (it != 0x20))
    return bvx.SymStr(b)


def build_shape(ex, shape, path='e'):
    """shape: 'int' | 'string' | 'bytes' | ['seq', ...] | ['prim', nannots, child...]"""
    from ref import michbin

    if isinstance(shape, str):
        kind, _, ln = shape.partition(':')
        return _leaf(ex, kind, path, int(ln or 2))
    if shape[0] == 'seq':
        return [build_shape(ex, s, f'{path}.{i}') for i, s in enumerate(shape[1:])]
    if shape[0] == 'prim':
        nann = shape[1]
        tag = ex.byte(f'{path}.prim')
        ex.assume(tag < michbin.N_PRIMS)
        e = {'prim': michbin.Prim(tag)}
        args = [build_shape(ex, s, f'{path}.{i}') for i, s in enumerate(shape[2:])]
        if args:
            e['args'] = args
        if nann == -1:
            e['annots'] = []          # explicit empty list: the same expression as without the key
        elif nann:
            e['annots'] = [_annot(ex, f'{path}.ann{i}') for i in range(nann)]
        return e
    raise ValueError(shape)


def conc_shape(shape, w, path='e'):
    from ref.prims import PRIMS

    if isinstance(shape, str):
        kind = shape.partition(':')[0]
        v = w[path]
        if kind == 'int':
            return {'int': str(int(v))}
        if kind == 'string':
            return {'string': bytes(v).decode()}
        return {'bytes': bytes(v).hex()}
    if shape[0] == 'seq':
        return [conc_shape(s, w, f'{path}.{i}') for i, s in enumerate(shape[1:])]
    e = {'prim': PRIMS[int(w[f'{path}.prim'])]}
    args = [conc_shape(s, w, f'{path}.{i}') for i, s in enumerate(shape[2:])]
    if args:
        e['args'] = args
    if shape[1] == -1:
        e['annots'] = []
    elif shape[1]:
        e['annots'] = [bytes(w[f'{path}.ann{i}']).decode() for i in range(shape[1])]
    return e


def sym_tree(P, ex):
    from ref import michbin
    from vf import bvx

    F = _load_forge()
    e = build_shape(ex, P['shape'])
    enc = F.forge_micheline(e)
    ref = michbin.encode(e)
    ex.check(enc == ref, 'forge_micheline(e) equals the reference encoding')
    back = F.unforge_micheline(enc)
    ex.check(deq(back, e), 'unforge_micheline(forge_micheline(e)) == e')
    mode = P.get('mode')
    if mode == 'truncate':
        for k in range(len(enc)):
            try:
                F.unforge_micheline(enc[:k])
            except (bvx.Abort, bvx.Found, bvx.Inconclusive):
                raise
            except Exception:
                continue
            # accepted: legitimate only if the prefix is itself a valid encoding according to the reference
            try:
                michbin.decode(enc[:k], symbolic_prims=True)
            except michbin.Reject:
                ex.fail_here(f'truncation to {k} bytes accepted')
        ex.check(True)
    elif mode == 'extend':
        ext = enc + bvx.SymBytes([ex.byte('x0')])
        try:
            F.unforge_micheline(ext)
        except (bvx.Abort, bvx.Found, bvx.Inconclusive):
            raise
        except Exception:
            ex.check(True)
            return
        try:
            michbin.decode(ext, symbolic_prims=True)
        except michbin.Reject:
            ex.fail_here('valid encoding followed by one extra byte accepted')
        ex.check(True)


def conc_tree(P, w):
    from pytezos.michelson import forge as F
    from ref import michbin

    e = conc_shape(P['shape'], w)
    enc = F.forge_micheline(e)
    ref = michbin.encode(e)
    try:
        back = F.unforge_micheline(enc)
    except Exception as ex:  # noqa
        back = f'{type(ex).__name__}: {ex}'
    ok = enc == ref and bool(deq(back, e))
    obs = {'enc': enc.hex(), 'back': back}
    mode = P.get('mode')
    if ok and mode == 'truncate':
        for k in range(len(enc)):
            try:
                F.unforge_micheline(enc[:k])
            except Exception:
                continue
            try:
                michbin.decode(enc[:k])
            except michbin.Reject:
                ok = False
                obs['accepted_truncation'] = enc[:k].hex()
    if ok and mode == 'extend':
        ext = enc + bytes([w['x0']])
        try:
            F.unforge_micheline(ext)
            try:
                michbin.decode(ext)
            except michbin.Reject:
                ok = False
                obs['accepted_extension'] = ext.hex()
        except Exception:
            pass
    return {'ok': ok, 'expr': e, 'observed': obs, 'expected': ref.hex()}


def sym_length_field(P, ex):
    """Perturb one length prefix of a valid encoding by a symbolic non-zero delta: must be rejected
    (unless the reference accepts the perturbed string as another valid encoding)."""
    from ref import michbin
    from vf import bvx

    F = _load_forge()
    e = build_shape(ex, P['shape'])
    enc = F.forge_micheline(e)
    off = P['offset']            # offset of the low byte of a 4-byte length field in the encoding
    d = ex.byte('delta')
    ex.assume(d != 0)
    items = list(enc.items)
    old = items[off]
    new = (old + d) & 0xFF
    items[off] = new
    mut = bvx.SymBytes(items)
    try:
        F.unforge_micheline(mut)
    except (bvx.Abort, bvx.Found, bvx.Inconclusive):
        raise
    except Exception:
        ex.check(True)
        return
    try:
        michbin.decode(mut, symbolic_prims=True)
    except michbin.Reject:
        ex.fail_here('inconsistent length prefix accepted')
    ex.check(True)


def conc_length_field(P, w):
    from pytezos.michelson import forge as F
    from ref import michbin

    e = conc_shape(P['shape'], w)
    enc = bytearray(F.forge_micheline(e))
    enc[P['offset']] = (enc[P['offset']] + int(w['delta'])) & 0xFF
    mut = bytes(enc)
    try:
        got = F.unforge_micheline(mut)
    except Exception:
        return {'ok': True, 'data': mut.hex(), 'observed': 'rejected'}
    try:
        michbin.decode(mut)
    except michbin.Reject as r:
        return {'ok': False, 'data': mut.hex(), 'observed': got, 'expected': f'rejected ({r})'}
    except michbin.OutsideClaim:
        pass
    return {'ok': True, 'data': mut.hex(), 'observed': got}


# ---- concrete obligations ---------------------------------------------------------------------
def sym_tables(P, ex):
    r = conc_tables(P, {})
    if not r['ok']:
        ex.fail_here('primitive table differs from the protocol table: ' + str(r['observed'])[:200])
    ex.check(True)


def conc_tables(P, w):
    from pytezos.michelson.forge import prim_int
    from pytezos.michelson.tags import prim_tags
    from ref.prims import PRIMS

    bad = []
    for i, name in enumerate(PRIMS):
        if prim_tags.get(name) != bytes([i]):
            bad.append(('prim_tags', name, prim_tags.get(name)))
        if prim_int.get(i) != name:
            bad.append(('prim_int', i, prim_int.get(i)))
    for name, t in prim_tags.items():
        if t[0] < len(PRIMS) and PRIMS[t[0]] != name:
            bad.append(('alias', name, t.hex()))
    return {'ok': not bad, 'observed': bad[:5]}


def _repo_vectors():
    out = []
    for path in sorted(glob.glob('/repo/tests/contract_tests/*/__script__.json')):
        with open(path) as f:
            s = json.load(f)
        out.append((os.path.basename(os.path.dirname(path)) + ':code', s['code']))
        out.append((os.path.basename(os.path.dirname(path)) + ':storage', s['storage']))
    return out


def conc_ref_validate(P, w):
    """Translator/reference validation on the repository's own vectors."""
    from pytezos.michelson import forge as F
    from ref import michbin

    n = 0
    for name, expr in _repo_vectors():
        enc = F.forge_micheline(expr)
        if michbin.encode(expr) != enc:
            return {'ok': False, 'observed': f'reference encoder disagrees with forge_micheline on {name}'}
        try:
            if michbin.decode(enc) != F.unforge_micheline(enc):
                return {'ok': False, 'observed': f'reference decoder disagrees with unforge_micheline on {name}'}
        except michbin.OutsideClaim:
            pass
        n += 1
    return {'ok': n > 0, 'vectors': n}


def sym_ref_validate(P, ex):
    r = conc_ref_validate(P, {})
    if not r['ok']:
        ex.fail_here(str(r.get('observed')))
    # the re-instantiated module must agree with the live one on the same vectors (translator validation)
    from pytezos.michelson import forge as live

    F = _load_forge()
    for name, expr in _repo_vectors()[:8]:
        if bytes(F.forge_micheline(expr)) != live.forge_micheline(expr):
            ex.fail_here(f're-instantiated forge module disagrees with the live module on {name}')
    ex.check(True)


# ---- catalogue --------------------------------------------------------------------------------
SHAPES_QUICK = {
    'int': 'int',
    'string3': 'string:3',
    'bytes3': 'bytes:3',
    'seq-empty': ['seq'],
    'seq(int,string)': ['seq', 'int', 'string:1'],
    'prim0': ['prim', 0],
    'prim0+ann': ['prim', 1],
    'prim0+empty-annots': ['prim', -1],
    'prim1(int)+empty-annots': ['prim', -1, 'int'],
    'prim2(int,int)+empty-annots': ['prim', -1, 'int', 'int:13'],
    'prim3+empty-annots': ['prim', -1, 'int:13', 'int:13', 'int:13'],
    'prim1(int)': ['prim', 0, 'int'],
    'prim1(bytes)+ann': ['prim', 1, 'bytes:1'],
    'prim2(int,string)': ['prim', 0, 'int', 'string:1'],
    'prim2(prim0,seq)+2ann': ['prim', 2, ['prim', 0], ['seq', 'int']],
    'prim3(int,int,int)': ['prim', 0, 'int:13', 'int:13', 'int:13'],
    'prim3+ann': ['prim', 1, 'int', ['prim', 0], 'bytes:1'],
    'prim4': ['prim', 0, 'int:13', 'int:6', 'int:13', 'int:6'],
    'nested': ['prim', 0, ['prim', 0, ['prim', 1, 'int:13']], ['seq', ['prim', 0, 'int:13', 'int:6']]],
}
SHAPES_THOROUGH = {
    'seq(seq(int),prim2)': ['seq', ['seq', 'int'], ['prim', 0, 'string:2', 'bytes:2']],
    'prim5+2ann': ['prim', 2, 'int:27', 'string:1', 'bytes:1', ['seq'], ['prim', 0]],
    'deep3': ['prim', 0, ['prim', 1, ['prim', 0, ['prim', 0, 'int:13', 'int:13'], 'int:20']]],
    'seq4': ['seq', 'int:20', 'int:13', 'string:2', ['prim', 1, 'int:13']],
}
# (shape name, offset of a length field's low byte, note)
LENGTH_FIELDS = [
    ('string3', 4, 'string length'), ('bytes3', 4, 'bytes length'), ('seq(int,string)', 4, 'sequence length'),
    ('prim0+ann', 5, 'annotation length'), ('prim3(int,int,int)', 5, 'args length of a 3-argument prim'),
    ('prim4', 5, 'args length of a 4-argument prim'),
]


def obligations(tier):
    q = tier == 'quick'
    W = 128 if q else 1024
    Wt = 128 if q else 256
    obs = [
        Ob('tables', 'bvx', sym_tables, conc_tables, timeout=30, bounds='concrete: live prim table vs the pinned protocol table (159 entries)',
           targets=TARGETS[-2:]),
        Ob('ref-validate', 'bvx', sym_ref_validate, conc_ref_validate, timeout=120,
           bounds='concrete: reference codec and re-instantiated module vs live module on the 20 mainnet scripts', targets=TARGETS),
        Ob(f'int/W={W}', 'bvx', sym_int, conc_int, opts={'W': W}, timeout=120 if q else 900,
           bounds=f'|v| < 2^{W - 10}', targets=TARGETS[:2]),
        Ob(f'nat/W={W}', 'bvx', sym_nat, conc_nat, opts={'W': W}, timeout=120 if q else 900,
           bounds=f'0 <= v < 2^{W - 10}', targets=TARGETS[2:3]),
        Ob('nat/negative', 'bvx', sym_nat_negative, conc_nat_negative, opts={'W': 128}, timeout=60,
           bounds='-2^118 < v < 0', targets=TARGETS[2:3]),
    ]
    maxn = 6 if q else 8
    for n in range(1, maxn + 1):
        if n <= 5:
            obs.append(Ob(f'buffers/n={n}', 'bvx', sym_buffer, conc_buffer, P={'n': n}, opts={'W': 64},
                          timeout=120 if q else 900, bounds=f'every byte string of length {n}', targets=TARGETS))
        else:
            # split by first byte (the tag) to spread the work
            for first in list(range(0, 11)) + [None]:
                if first is None:
                    continue
                obs.append(Ob(f'buffers/n={n}/tag={first}', 'bvx', sym_buffer, conc_buffer, P={'n': n, 'first': first},
                              opts={'W': 64}, timeout=150 if q else 1500,
                              bounds=f'every byte string of length {n} starting with tag {first}', targets=TARGETS))
            obs.append(Ob(f'buffers/n={n}/tag>10', 'bvx', sym_buffer_unknown_tag, conc_buffer, P={'n': n}, opts={'W': 64},
                          timeout=60, bounds=f'every byte string of length {n} whose first byte is > 10', targets=TARGETS))
    # structured long buffers: an arbitrary node tag and primitive byte in front of the generic-primitive layout (args block, annots block)
    for lname, tail in (('empty-args-empty-annots', [0, 0, 0, 0, 0, 0, 0, 0]), ('args=[1]-empty-annots', [0, 0, 0, 2, 0, 1, 0, 0, 0, 0]),
                        ('empty-args-annot', [0, 0, 0, 0, 0, 0, 0, 2, 0x25, 0x61])):
        obs.append(Ob(f'buffers/any-tag+generic-layout/{lname}', 'bvx', sym_buffer_layout, conc_buffer, P={'tail': tail}, opts={'W': 64}, timeout=120 if q else 900,
                      bounds='first byte (node tag) and second byte (primitive) symbolic over 0..255, followed by the fixed generic-primitive layout', targets=TARGETS))
    shapes = dict(SHAPES_QUICK)
    if not q:
        shapes.update(SHAPES_THOROUGH)
    for name, shape in shapes.items():
        for mode in (None, 'truncate', 'extend'):
            obs.append(Ob(f'tree/{name}' + (f'/{mode}' if mode else ''), 'bvx', sym_tree, conc_tree,
                          P={'shape': shape, 'mode': mode}, opts={'W': Wt}, timeout=120 if q else 900,
                          bounds=f'shape {name}; int leaves |v| < 2^{Wt - 10} (or 2^k where the shape says int:k); text/bytes leaves of the stated length; prim index symbolic'
                                 + ({'truncate': '; every proper prefix', 'extend': '; one extra symbolic byte'}.get(mode, '')),
                          targets=TARGETS))
    for name, off, note in LENGTH_FIELDS:
        obs.append(Ob(f'length/{name}@{off}', 'bvx', sym_length_field, conc_length_field,
                      P={'shape': shapes[name], 'offset': off}, opts={'W': 128}, timeout=120 if q else 600,
                      bounds=f'{note} of shape {name} changed by any non-zero delta (low byte)', targets=TARGETS))
    return obs


def sym_buffer_layout(P, ex):
    """[tag, prim] symbolic + fixed tail: accepted iff the reference decoder accepts."""
    from ref import michbin
    from vf import bvx

    F = _load_forge()
    head = ex.bytes('data', 2)
    data = bvx.SymBytes(list(head.items) + list(P['tail']))
    try:
        michbin.decode(data, symbolic_prims=True)
        ref_ok = True
    except michbin.Reject:
        ref_ok = False
    try:
        F.unforge_micheline(data)
        ok = True
    except (bvx.Abort, bvx.Found, bvx.Inconclusive):
        raise
    except Exception:
        ok = False
    if ok != ref_ok:
        ex.fail_here('pytezos accepts a byte string Tezos rejects' if ok else 'pytezos rejects a valid encoding')
    ex.check(True)


def sym_buffer_unknown_tag(P, ex):
    from vf import bvx

    F = _load_forge()
    data = ex.bytes('data', P['n'])
    ex.assume(data[0] > 10)
    try:
        F.unforge_micheline(data)
    except (bvx.Abort, bvx.Found, bvx.Inconclusive):
        raise
    except Exception:
        ex.check(True)
        return
    ex.fail_here('unknown tag accepted')
