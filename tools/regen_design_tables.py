#!/usr/bin/env python3
"""Regenerates the two generated tables of DESIGN.md section 10 (between the <!-- asbuilt --> / <!-- seedtable --> markers)."""
import os
import re
import subprocess

ROOT = os.path.dirname(os.path.dirname(os.path.abspath(__file__)))
p = os.path.join(ROOT, 'DESIGN.md')
s = open(p).read()
for mark in ('asbuilt', 'seedtable'):
    new = subprocess.run(['python3', os.path.join(ROOT, 'tools', f'{mark}.py')], capture_output=True, text=True).stdout.strip()
    s = re.sub(rf'(<!-- {mark} [^>]*-->\n).*?(\n<!-- /{mark} -->)', lambda m: m.group(1) + new + m.group(2), s, flags=re.S)
open(p, 'w').write(s)
