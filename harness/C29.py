"""C29 Chain-history search reports exactly the state changes."""
from vf.core import Ob
from vf.xh import assume

TARGETS = ['pytezos.rpc.search.find_state_change_intervals', 'pytezos.rpc.search.find_state_change',
           'pytezos.rpc.search.walk_state_change_interval', 'pytezos.rpc.search.find_state_changes']
STUBS = ['get(level) -> number of change points <= level (a value that never returns to an earlier value); in the equals-coarser-than-== obligations a pair (that number, level) compared by its first component',
         'logger.debug -> no-op *after* its arguments have been evaluated (a raising format expression stays visible)']
BOUNDS = {'quick': 'range length head-last <= 24, step 1..8, <= 2 change points, last symbolic in 0..5',
          'thorough': 'range length head-last <= 120, step 1..60, <= 3 change points'}
OUTSIDE = ['ranges longer than the bound', 'histories in which the value returns to an earlier value (excluded by the property)',
           'the RPC queries that provide get()']
ASSUMPTIONS = ['change points lie in (last, head]; the value at `last` is the start value']


def _mk_get(cs, snap=False):
    def get(level):
        n = 0
        for c in cs:
            if c <= level:
                n += 1
        # snapshot mode: the observed value also carries a field that differs at every level and that `equals` ignores
        return (n, level) if snap else n

    return get


def eq(a, b):
    return a == b


def eq_snap(a, b):
    return a[0] == b[0]


def run_changes(head, last, cs, step, snap=False):
    from pytezos.rpc import search as S

    if snap:
        return [(lvl, v[0]) for lvl, v in S.find_state_changes(head, last, _mk_get(cs, True), eq_snap, step)]
    return list(S.find_state_changes(head, last, _mk_get(cs), eq, step))


def run_single(head, last, cs):
    from pytezos.rpc import search as S

    get = _mk_get(cs)
    return S.find_state_change(head, last, get, eq, pred_value=get(last))


def _pre(P, last, length, step, cs):
    assume(0 <= last <= 5)
    assume(1 <= length <= P['maxlen'])
    if 'step' in P:
        assume(step == P['step'])
        step = P['step']
    else:
        assume(1 <= step <= P['maxstep'])
    head = last + length
    prev = last
    for c in cs:
        assume(prev < c <= head)
        prev = c
    return head


def sym_changes1(P, last: int, length: int, step: int, c1: int) -> bool:
    head = _pre(P, last, length, step, [c1])
    return run_changes(head, last, [c1], step, P.get('snap', False)) == [(c1, 1)]


def sym_changes2(P, last: int, length: int, step: int, c1: int, c2: int) -> bool:
    head = _pre(P, last, length, step, [c1, c2])
    return run_changes(head, last, [c1, c2], step, P.get('snap', False)) == [(c1, 1), (c2, 2)]


def sym_changes3(P, last: int, length: int, step: int, c1: int, c2: int, c3: int) -> bool:
    head = _pre(P, last, length, step, [c1, c2, c3])
    return run_changes(head, last, [c1, c2, c3], step, P.get('snap', False)) == [(c1, 1), (c2, 2), (c3, 3)]


def sym_changes0(P, last: int, length: int, step: int) -> bool:
    head = _pre(P, last, length, step, [])
    return run_changes(head, last, [], step, P.get('snap', False)) == []


def sym_single(P, last: int, length: int, c1: int, c2: int) -> bool:
    assume(0 <= last <= 5)
    assume(1 <= length <= P['maxlen'])
    head = last + length
    assume(last < c1 <= head)
    assume(c1 < c2)      # c2 may lie beyond head: then there is a single change in range
    level, value = run_single(head, last, [c1, c2])
    return level == c1 and value == _mk_get([c1, c2])(c1)


def _cs(w, k):
    return [int(w[f'c{i}']) for i in range(1, k + 1)]


def concrete_changes(P, w):
    k = P['k']
    last, length, step = int(w['last']), int(w['length']), int(w['step'])
    cs = _cs(w, k)
    exp = [(c, i + 1) for i, c in enumerate(cs)]
    try:
        got = run_changes(last + length, last, cs, step, P.get('snap', False))
    except Exception as e:  # noqa
        return {'ok': False, 'observed': f'raises {type(e).__name__}: {e}', 'expected': exp}
    return {'ok': got == exp, 'observed': got, 'expected': exp}


def concrete_single(P, w):
    last, length = int(w['last']), int(w['length'])
    cs = [int(w['c1']), int(w['c2'])]
    exp = (cs[0], 1)
    try:
        got = tuple(run_single(last + length, last, cs))
    except Exception as e:  # noqa
        return {'ok': False, 'observed': f'raises {type(e).__name__}: {e}', 'expected': exp}
    return {'ok': got == exp, 'observed': got, 'expected': exp}


def obligations(tier):
    q = tier == 'quick'
    t = 120 if q else 900
    obs = [
        Ob('single-change/bisection', 'xh', sym_single, concrete_single, {'maxlen': 24 if q else 300},
           timeout=t, bounds=f'head-last <= {24 if q else 300}, first change point anywhere in range, optional second one',
           targets=TARGETS[1:2]),
        Ob('changes/k=0', 'xh', sym_changes0, concrete_changes, {'maxlen': 24 if q else 120, 'maxstep': 8 if q else 60, 'k': 0},
           timeout=t, bounds=f'no change; head-last <= {24 if q else 120}; step <= {8 if q else 60}', targets=TARGETS),
    ]
    syms = {1: sym_changes1, 2: sym_changes2, 3: sym_changes3}
    # caller-supplied `equals` coarser than ==: values are (state, level) snapshots compared by their state only
    for k, maxlen, steps in ([(1, 12, (1, 2, 3, 5)), (2, 8, (1, 2, 3, 5))] if q else [(1, 24, range(1, 9)), (2, 12, range(1, 9))]):   # sized by wall time: (1, 40, 1..12) + (2, 20, 1..8) did not finish in 12 minutes
        for step in steps:
            obs.append(Ob(f'changes/equals-coarser-than-==/k={k}/step={step}', 'xh', syms[k], concrete_changes,
                          {'maxlen': maxlen, 'step': step, 'k': k, 'snap': True}, timeout=t,
                          bounds=f'{k} change point(s) anywhere in (last, head]; head-last <= {maxlen}; step = {step}; values carry a per-level field ignored by equals',
                          targets=TARGETS))
    # (k, max range length, steps)
    plan = [(1, 24, range(1, 9)), (2, 12, range(1, 9))] if q else \
           [(1, 120, list(range(1, 13)) + [20, 30, 60]), (2, 40, list(range(1, 13)) + [20, 30]), (3, 16, range(1, 9))]
    for k, maxlen, steps in plan:
        for step in steps:
            obs.append(Ob(f'changes/k={k}/step={step}', 'xh', syms[k], concrete_changes,
                          {'maxlen': maxlen, 'step': step, 'k': k}, timeout=t,
                          bounds=f'{k} change point(s) anywhere in (last, head]; head-last <= {maxlen}; step = {step}; last in 0..5',
                          targets=TARGETS))
    return obs
