#!/bin/bash
# tools/run_thorough.sh <id>...: runs the thorough tier of the given checks, one after the other
cd /verif
for id in "$@"; do
  s=$(date +%s); out=$(timeout 5400 ./check $id --tier thorough 2>&1); rc=$?; e=$(date +%s)
  echo "$id rc=$rc $((e-s))s $(echo "$out" | grep -E "^$id " | tail -1 | cut -c1-220)"
  echo "$out" | grep -E "VIOLATION|HARNESS-ERROR|inconclusive:" | head -8 | cut -c1-300
done
