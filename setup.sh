#!/bin/bash
# Offline bootstrap of /verif/.venv: a venv over /venv (which holds pytezos' dependencies and the
# editable install of /repo/src) plus crosshair-tool, z3-solver and cvc5 from the local wheelhouse.
set -eu
HERE="$(cd "$(dirname "$0")" && pwd)"
V="$HERE/.venv"
STAMP="$V/.ok"
if [ -f "$STAMP" ]; then exit 0; fi
exec 9>"$HERE/.setup.lock"
flock 9
if [ -f "$STAMP" ]; then exit 0; fi
rm -rf "$V"
/venv/bin/python -m venv "$V"
SP="$V/lib/python3.12/site-packages"
echo "import site; site.addsitedir('/venv/lib/python3.12/site-packages')" > "$SP/overlay.pth"
PIP_NO_INDEX=1 "$V/bin/python" -m pip install -q --no-index --find-links /opt/veriftools/wheels crosshair-tool z3-solver cvc5
"$V/bin/python" -c "import crosshair, z3, cvc5, pytezos; print('ok')"
touch "$STAMP"
