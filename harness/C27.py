"""C27 Node errors map to the most specific registered error class."""
from vf.core import Ob
from vf.xh import assume

TARGETS = ['pytezos.rpc.node._gen_error_variants', 'pytezos.rpc.node.RpcError.from_errors']
STUBS = []
BOUNDS = ('error lists of length 1..3; last identifier of the forms proto.<P>.<C>.<N>, proto.<P>.<C>.<D>.<N>, <C>.<N>, <N>; every '
          'component chosen by the solver from the tokens of all registered handler keys plus two unregistered tokens')
OUTSIDE = ['identifiers with more than 5 components', 'unregistered tokens other than the two placeholders (only equality with '
           'registered keys is ever tested by the code, so their spelling is immaterial)']
ASSUMPTIONS = ['priority order as stated by the property: full id, id without proto.<protocol>., final component, category (second to last component), else RpcError']


def tokens():
    from pytezos.rpc.node import RpcError
    import pytezos.rpc.errors  # noqa: registers the handlers

    toks = []
    for key in RpcError.__handlers__:
        for t in key.split('.'):
            if t not in toks:
                toks.append(t)
    return toks + ['zzfresh', 'alpha']


FORMS = ['proto.P.C.N', 'proto.P.C.D.N', 'C.N', 'N', 'P.C.N']


def build(form, toks, p, c, d, n):
    parts = []
    for x in form.split('.'):
        parts.append({'proto': 'proto', 'P': toks[p], 'C': toks[c], 'D': toks[d], 'N': toks[n]}[x])
    return '.'.join(parts)


def reference(error_id):
    from pytezos.rpc.node import RpcError
    import pytezos.rpc.errors  # noqa

    h = RpcError.__handlers__
    chunks = error_id.split('.')
    cands = [error_id]
    if chunks[0] == 'proto' and len(chunks) > 2:
        cands.append('.'.join(chunks[2:]))
    if len(chunks) > 1:
        cands.append(chunks[-1])
        cands.append(chunks[-2])
    for c in cands:
        if c in h:
            return h[c]
    return RpcError


def pick(i, n):
    for k in range(n):
        if i == k:
            return k
    assume(False)


def run(form, nerr, p, c, d, n, decoy):
    from pytezos.rpc.node import RpcError
    import pytezos.rpc.errors  # noqa

    toks = tokens()
    eid = build(form, toks, p, c, d, n)
    errors = [{'id': 'proto.alpha.' + toks[decoy] + '.decoy', 'kind': 'temporary'} for _ in range(nerr - 1)]
    last = {'id': eid, 'kind': 'permanent', 'marker': 1}
    errors.append(last)
    e = RpcError.from_errors(errors)
    exp = reference(eid)
    ok = type(e) is exp and (e.args[0] is last)
    return ok, eid, type(e).__name__, exp.__name__


def small():
    """indices of the reduced token universe used for <P> and <D> (a registered category, a registered name, fresh)."""
    toks = tokens()
    return [toks.index('michelson_v1'), toks.index('script_rejected'), toks.index('zzfresh')]


def sym(P, p: int, c: int, d: int, n: int) -> bool:
    nt = len(tokens())
    form = P['form'].split('.')
    sm = small()
    p = sm[pick(p, 3)] if 'P' in form else 0
    c = pick(c, nt) if 'C' in form else 0
    d = sm[pick(d, 3)] if 'D' in form else 0
    n = pick(n, nt)
    return run(P['form'], P['nerr'], p, c, d, n, P['decoy'])[0]


def concrete(P, w):
    form = P['form'].split('.')
    sm = small()
    p = sm[int(w['p'])] if 'P' in form else 0
    c = int(w['c']) if 'C' in form else 0
    d = sm[int(w['d'])] if 'D' in form else 0
    ok, eid, got, exp = run(P['form'], P['nerr'], p, c, d, int(w['n']), P['decoy'])
    return {'ok': ok, 'error_id': eid, 'observed': got, 'expected': exp}


def sym_empty(P, x: int) -> bool:
    from pytezos.rpc.node import RpcError

    e = RpcError.from_errors([])
    return type(e) is RpcError


def obligations(tier):
    obs = []
    for form in FORMS:
        if form == 'P.C.N' and tier == 'quick':
            continue
        toks = tokens()
        for nerr, decoy in ((1, 0), (2, toks.index('tez')), (3, toks.index('script_rejected'))):
            obs.append(Ob(name=f'map/{form}/errors={nerr}', engine='xh', sym=sym, concrete=concrete,
                          P={'form': form, 'nerr': nerr, 'decoy': decoy},
                          timeout=120 if tier == 'quick' else 600,
                          bounds=f'identifier form {form}; <C>,<N> symbolic over {len(toks)} tokens, <P>,<D> over 3 tokens; '
                                 f'{nerr} error(s), earlier ones are decoys of another registered category',
                          targets=TARGETS))
    obs.append(Ob(name='map/empty-list', engine='xh', sym=sym_empty,
                  concrete=lambda P, w: {'ok': sym_empty(P, 0)}, timeout=20, bounds='empty error list -> generic RpcError',
                  targets=TARGETS))
    return obs
