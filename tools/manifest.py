#!/usr/bin/env python3
"""Regenerates /verif/MANIFEST.json from the table below (kept in one place so it stays valid)."""
import json
import os

ROOT = os.path.dirname(os.path.dirname(os.path.abspath(__file__)))

# id -> (technique, level text, level note, design ref)
CLAIMED = {
    'C28': (
        'proxy symbolic execution (bvx/z3) of RpcMultiNode / RpcNode.request over solver-chosen pools and outcome vectors',
        'Bounded symbolic model checking: what every client request meets (200, 404, permanent 500, transport exception, one or two transient 5xx followed by an answer, six transient 5xx) and - in '
        'a second family - which address every pool slot holds (repetitions and trailing-slash spellings included) are chosen by the solver; all paths are explored; every HTTP call of client '
        'request i, internal retries included, must go to the address of slot i mod n.',
        'requests.request is a recording fake, sleep a no-op; bound: 5 (quick) / 6 (thorough) client requests, <= 4 nodes.',
        'DESIGN.md C28',
    ),
}

CLAIMED.update({
    'C26': (
        'proxy symbolic execution (bvx/z3) of RpcNode.request over solver-chosen response-class sequences and symbolic status codes',
        'Bounded symbolic model checking of the retry loop: the class of each of up to 7 responses (18 classes, incl. two-error bodies, bodies labelled JSON that do not parse and 4xx/401/404 responses whose body looks like a transient server error; also through RpcMultiNode with 2 and 3 nodes) is chosen by the '
        'solver and the status code inside the class is a symbolic integer; number of requests, every sleep delay and the returned/raised outcome (any other escaping exception included) are compared '
        'with the retry rule of the property on every path.',
        'requests.request/sleep are stubs; 18 response classes; log formatting (json.dumps/pformat) stubbed to constants.',
        'DESIGN.md C26',
    ),
    'C27': (
        'symbolic execution (CrossHair/z3) of RpcError.from_errors over solver-chosen identifier components',
        'Bounded symbolic model checking: identifier components are chosen by the solver from all tokens of the registered handler '
        'keys plus unregistered ones, for five identifier forms and 1..3 errors; the class raised is compared with the priority '
        'order of the property.',
        'Only the spelling of unregistered tokens is concretised (the code tests them for equality with registered keys only).',
        'DESIGN.md C27',
    ),
    'C29': (
        'symbolic execution (CrossHair/z3) of find_state_changes / find_state_change over symbolic ranges and change points',
        'Bounded symbolic model checking: range start, range length, change points (and the step, per obligation) are solver '
        'variables; the value history is monotone by construction; result lists are compared with the exact list of change points.',
        'Range length <= 24/12 (quick) and <= 120/40/16 (thorough) for 1/2/3 change points; get() is a model of a value that never returns.',
        'DESIGN.md C29',
    ),
})

CLAIMED.update({
    'C05': (
        'proxy symbolic execution (own bvx engine, z3 bit-vectors) of the real forge.py code, differential against a reference codec',
        'Bounded symbolic model checking of forge_int/unforge_int/forge_nat/forge_micheline/unforge_micheline: the real function '
        'bodies run on z3 bit-vector proxies, all paths are enumerated; every byte string up to the bound is decoded by pytezos and '
        'by an independent reference decoder on the same path (accept/reject and result must agree, re-encoding must equal the '
        'reference encoding); integers are symbolic up to the stated width with checked no-overflow side conditions; tree shapes '
        'with symbolic leaves, truncation, extension and length-prefix perturbation obligations.',
        'Reference codec ref/michbin.py (validated on the 20 mainnet scripts each run); prim table replaced by a symbolic bijection '
        'justified by a concrete table comparison; non-ASCII text is outside the claim; 0x40 accepted as 0.',
        'DESIGN.md C05',
    ),
})

CLAIMED.update({
    'C16': (
        'proxy symbolic execution (bvx: z3 integers and bit-vectors) of the real arithmetic/boolean instruction classes',
        'Bounded symbolic model checking of every operand-type combination of ADD SUB SUB_MUTEZ MUL EDIV ABS NEG ISNAT INT NAT '
        'BYTES LSL LSR AND OR XOR NOT EQ..GE: the real execute() methods run on z3 terms; results, failure conditions and result '
        'types are compared with mathematical definitions (EDIV by its defining equation, BYTES by value+minimality+round trip). '
        'Unbounded integers for the arithmetic group; bit-vectors with checked width for the bit-level group.',
        'Engine models of Python builtins (floor divmod, bit_length, to_bytes/from_bytes) are validated against CPython on every run; '
        'formatting stubbed; BLS operand types excluded.',
        'DESIGN.md C16',
    ),
    'C03': (
        'proxy symbolic execution (bvx/z3) of COMPARE and the __lt__/__eq__ methods, set/map constraint checks; solver-chosen representatives for base58-rendered types',
        'Bounded symbolic model checking: two symbolic values of each comparable type shape go through the real COMPARE; the result must '
        'agree with a reference order computed on the same symbolic values; set/map literals of 2..4 symbolic elements must be accepted '
        'exactly when strictly increasing; for address/key/key_hash/chain_id/signature the solver picks triples from real representatives '
        'of every kind and the kind order plus the total-order axioms are checked.',
        'set() inside check_constraints modelled as duplicate elimination by __eq__; payload-level order of base58 text is bridged by the C09 lemma.',
        'DESIGN.md C03',
    ),
})

CLAIMED.update({
    'C09': (
        'z3 integer queries generated from base58_encodings (prefix/length lemma per row, all payloads) + proxy symbolic execution (bvx) of base58_encode/base58_decode behind a Base58Check boundary stub',
        'Bounded symbolic model checking: for every table row the solver decides over ALL payloads (and a free checksum) that the text has the '
        'documented prefix and length; the real lookup code is executed on fully symbolic payload / decoded bytes to decide the round trip, '
        'wrong-length / unknown-prefix rejection and rejection of foreign binary prefixes; pairwise unambiguity is decided at table level.',
        'Positional arithmetic model of the base58 package (validated on vectors and on every model); checksum rejection is the package contract.',
        'DESIGN.md C09',
    ),
    'C10': (
        'proxy symbolic execution (bvx/z3) of the forge/unforge helpers and domain types with fully symbolic payloads behind a Base58Check boundary stub',
        'Bounded symbolic model checking: for each kind of address, key hash, key, signature and chain id the whole payload is symbolic; the value '
        'goes through the real to_micheline_value(optimized|legacy_optimized) and from_micheline_value; kind, payload bytes and entrypoint must '
        'survive; sequences of kinds with identical payloads; blind_unpack of the 22-byte form.',
        'Base58Check boundary stub (prefix/length facts are C09 lemmas); entrypoint names from a fixed list; typed signatures may come back as generic sig.',
        'DESIGN.md C10',
    ),
    'C14': (
        'proxy symbolic execution (bvx/z3) of the set/map types and UPDATE/GET/GET_AND_UPDATE/MEM/SIZE/ITER/MAP from an arbitrary valid pre-state (inductive step)',
        'Bounded symbolic model checking, one inductive step: the pre-state is an arbitrary collection (<= 3/4 entries, symbolic keys and values) '
        'satisfying the representation invariant, one operation with symbolic arguments runs on the real code, and sortedness, duplicate '
        'freedom and agreement with a dictionary model are discharged on every path; literals accepted iff strictly increasing.',
        'Invariant = strictly increasing keys in the reference order of C03; counterexamples are replayed by rebuilding the pre-state with real UPDATE instructions.',
        'DESIGN.md C14',
    ),
})

CLAIMED.update({
    'C04': (
        'proxy symbolic execution (bvx/z3 bit-vectors) of PACK/UNPACK, the type classes and the real forge code, against a reference encoder/decoder',
        'Bounded symbolic model checking: symbolic values of a catalogue of packable types are packed by the real code and compared with '
        '0x05 || reference binary Micheline of a reference optimized rendering; UNPACK(PACK v) = Some v; every proper prefix of PACK v and every '
        'byte string up to the bound must unpack to None unless it is valid binary Micheline; base58-rendered leaves with fully symbolic payloads.',
        'First integer leaf up to the width, further ones < 2^13; strings/bytes <= 2-3 symbols; collections <= 2-3; boundary stub for Base58Check.',
        'DESIGN.md C04',
    ),
    'C31': (
        'z3 EUF: the real hash.py functions executed with Blake2b as an uninterpreted function and leaves as free constants; equality with the reference Merkle term',
        'Bounded symbolic model checking: for every list length up to the bound the term computed by the real code is proved equal (congruence '
        'closure) to the reference root over padded leaves, for all hash values at once; lists of lists and the payload hash likewise.',
        'Blake2b and byte concatenation are uninterpreted; counterexamples are replayed with the real Blake2b.',
        'DESIGN.md C31',
    ),
    'C32': (
        'solver-driven exploration (bvx/z3 selectors) of view names and code trees through the real ViewSection.match',
        'Bounded symbolic model checking over selector variables: name length/position/character class and the placement of restricted '
        'instructions under nested wrappers with siblings are chosen by the solver, all feasible assignments are explored, and acceptance is compared with the rule of the property.',
        'Each explored case is a concrete view definition (structure is enumerated by the solver); grammar of wrappers/siblings as listed in the evidence.',
        'DESIGN.md C32',
    ),
})

CLAIMED.update({
    'C20': (
        'proxy symbolic execution (bvx/z3 integers) of the ticket instructions and TicketType from an arbitrary valid ticket state',
        'Bounded symbolic model checking, one step from any valid state: amounts are unbounded symbolic naturals, contents symbolic; TICKET, '
        'SPLIT_TICKET (+JOIN of the parts), JOIN_TICKETS, READ_TICKET and DUP/DUP n on nine ticket-bearing value shapes; None/Some conditions, '
        'amounts, result types and conservation (JOIN(SPLIT t) = t) are discharged on every path.',
        'Invariant: existing tickets have positive amounts; context stub provides the self address.',
        'DESIGN.md C20',
    ),
    'C11': (
        'proxy symbolic execution (bvx/z3) of to_micheline_value/from_micheline_value of the type classes in three modes against a reference rendering; time library behind a measured contract stub',
        'Bounded symbolic model checking: symbolic values of a catalogue of type shapes (combs up to 5/7 leaves) are rendered in readable, '
        'optimized and legacy-optimized mode, compared with a reference rendering and parsed back; every integer timestamp is decided through a '
        'contract of datetime/strict_rfc3339 whose boundaries are measured from the real functions on every run; base58-rendered leaves with symbolic payloads.',
        'ints unbounded, strings/bytes <= 2-3, collections <= 2-3; time contract validated at its boundaries; big_map/lambda/ticket excluded.',
        'DESIGN.md C11',
    ),
})

CLAIMED.update({
    'C13': (
        'proxy symbolic execution (bvx/z3) of ParameterSection (entrypoint listing, from_parameters, to_parameters) over solver-chosen annotation placements and symbolic values',
        'Bounded symbolic model checking: for union trees up to depth 2/3 the subset of annotated nodes, the position of default/root names, the '
        'entrypoint called, the Left/Right path and the leaf values are solver variables; the entrypoint list is compared with a reference and both round trips are discharged on every path.',
        'Shapes and name pools as listed; duplicate names excluded.',
        'DESIGN.md C13',
    ),
    'C12': (
        'proxy symbolic execution (bvx/z3) of to_python_object/from_python_object, ContractData.encode/decode and ContractEntrypoint.encode/decode',
        'Bounded symbolic model checking: symbolic values of a catalogue of storage/parameter type shapes (named/unnamed/partly named pairs, '
        'duplicate names, unions, enums, options, collections with composite keys) are converted to Python objects and back; layout keys must be unique and stable.',
        'Set/map keys are solver-chosen from small concrete universes (dict keys must be hashable); other leaves symbolic.',
        'DESIGN.md C12',
    ),
    'C17': (
        'proxy symbolic execution (bvx/z3) of instructions on the same symbolic values at an annotated and at the annotation-free type',
        'Bounded symbolic model checking (differential): the solver chooses which nodes of a comb (or of collection element/key types) carry field or '
        'type annotations; GET/UPDATE/UNPAIR n, UNPAIR, CAR, CDR, PACK, SOME, DUP, COMPARE, MAP, GET, MEM, ITER, CONS run on both typings and results, '
        'failures, result types (annotation-stripped) and packed bytes must coincide.',
        'Combs of 3..4 (quick) / 5 (thorough) leaves; <= 2 annotated nodes on 4-leaf combs in the quick tier; ints < 2^13.',
        'DESIGN.md C17',
    ),
})

CLAIMED.update({
    'C33': (
        'proxy symbolic execution (bvx/z3) of register_global_constant/resolve_global_constants with a functionally consistent hash stub',
        'Bounded symbolic model checking: reference edges among registered constants, the constant named by each reference site (type, code, '
        'nested sequences, instruction arguments, data) or an unknown hash are solver variables; the expansion is compared with substitution by hash.',
        'Blake2b/Base58 replaced by an injective functional stub over the forged bytes; leaves symbolic in a small range.',
        'DESIGN.md C33',
    ),
    'C19': (
        'proxy symbolic execution (bvx/z3) of macro expansions by the real instruction classes on symbolic stacks, against per-macro reference meanings',
        'Bounded symbolic model checking: every macro name of the listed families (all PAIR trees <= 4/5 leaves, all C[AD]+R paths <= 3/4) is expanded by '
        'the real expand_macro and executed on a stack of unbounded symbolic ints/bools/options/unions; the resulting stack or failure is compared with the '
        'reference meaning; UNPxR o PxR = identity; annotation placement of PAIR trees evaluated at type level.',
        'Bodies of IF*/MAP_*/DIP macros are fixed small code blocks; annotation placement only for PAIR trees.',
        'DESIGN.md C19',
    ),
})

CLAIMED.update({
    'C01': (
        'proxy symbolic execution (bvx/z3) of the real instruction classes and of Interpreter.run_code on symbolic stacks, differential against a reference interpreter',
        'Bounded symbolic model checking: ~120 instruction/program templates (stack manipulation incl. nested DIP/DUP n/DIG/DUG, control flow, lambdas, data '
        'structures, strings/bytes, environment, hashing, whole contracts) run on fully symbolic input stacks; the final stack or the failure must equal that of an '
        'independent reference interpreter (ref/michelson.py) on the same symbolic inputs.',
        'Reference interpreter validated on the Octez-derived opcode vectors of the repository; hashes are uninterpreted tokens; FAILWITH payloads not compared; arithmetic/compare/collections/tickets/PACK/macros in depth are C16/C03/C14/C20/C04/C19.',
        'DESIGN.md C01',
    ),
    'C02': (
        'same symbolic runs as C01 (bvx/z3) with the assertion on the runtime type of every result slot against the types computed by the reference interpreter',
        'Bounded symbolic model checking: for every template of C01 and for MAP over maps with composite keys, type(v).as_micheline_expr() (annotations stripped) of each '
        'resulting stack slot / storage must equal the type assigned by the reference typing; known finding: MAP over an empty collection with a type-changing body.',
        'Typing rules are those implemented by the reference interpreter for its instruction set.',
        'DESIGN.md C02',
    ),
})

CLAIMED.update({
    'C15': (
        'proxy symbolic execution (bvx/z3) of BigMapType and the GET/MEM/UPDATE/GET_AND_UPDATE instructions from an arbitrary valid layered state, then of aggregate_lazy_diff',
        'Bounded symbolic model checking, one inductive step: for every key of a small universe the solver chooses among six situations (absent, on chain, locally set, locally set over '
        'chain, removed on chain, removed locally), all values are symbolic; after one operation every observation, the representation invariant and the lazy diff applied to the on-chain '
        'contents are compared with a dictionary model; each diff entry must carry the real script-expression hash of its packed key.',
        'Key universe of 3 (quick) / 4 (thorough) concrete keys; node shell replaced by a fake holding the on-chain map.',
        'DESIGN.md C15',
    ),
})

CLAIMED.update({
    'C22': (
        'proxy symbolic execution (bvx/z3) of Interpreter.execute over sessions with solver-chosen failing cells, differential against the session without them',
        'Bounded symbolic model checking over crash points: where the failing cells are inserted, which body they run, after which instruction they fail and whether they fail inside DIP '
        'are solver variables, all pushed values are symbolic; after every successful cell the stack (incl. big_map ids, entries, removals), the protected-prefix counter, the context '
        'counters/registries and every COMMIT lazy diff/result must equal those of the session with the failing cells removed.',
        'Fixed skeleton of 15 cells, 7 failing-cell bodies; the PLY parser is replaced by a table lookup (cells are Micheline).',
        'DESIGN.md C22',
    ),
})

CLAIMED.update({
    'C06': (
        'proxy symbolic execution (bvx/z3 bit-vectors) of the real operation forgers (re-instantiated forge modules) against a reference encoder of the Tezos operation format',
        'Bounded symbolic model checking: for every listed content kind, source/destination kind and entrypoint form, fees/counters/limits/amounts are symbolic (one field up to 2^118 per '
        'obligation), every address/key/hash payload is fully symbolic behind the Base58Check boundary stub, parameters carry symbolic Micheline leaves; the forged bytes must equal the '
        'reference encoding (which is decodable, hence injective); groups of 1..3 contents.',
        'Reference encoder ref/opbin.py validated on the recorded mainnet groups each run; entrypoint names from a fixed list; consensus/voting kinds excluded.',
        'DESIGN.md C06',
    ),
})

CLAIMED.update({
    'C24': (
        'proxy symbolic execution (bvx/z3 integers) of OperationGroup.fill/autofill, calculate_fee/default_fee and OperationResult against a simulated node; the node acceptance rule is the assertion',
        'Bounded symbolic model checking: account counter, node constants, caller-given limits, reserves, per-content simulated milligas / storage diffs and parameter padding are mathematical-integer '
        'solver variables; for each batch shape and source key kind the total chosen fee must satisfy 1000*fee >= 100000 + 1000*signed_size + 100*sum(gas_limit); size-model lemmas run the real '
        'forge_operation on symbolic numeric fields; a float lemma covers int(100*g/1000).',
        'Batch shapes are enumerated (structure), all quantities inside a shape are symbolic; shell is the simulated node of harness/opnode.py.',
        'DESIGN.md C24',
    ),
})

CLAIMED.update({
    'C25': (
        'proxy symbolic execution (bvx/z3) of ExecutionContext counter handling and OperationGroup.fill/autofill/sign/inject/send over solver-chosen call histories against a simulated node',
        'Bounded symbolic model checking over histories: every step of the history (prepare by fill/autofill/send, autofill again, inject ok/refused, bake, operations entering the mempool) is chosen by '
        'the solver, the account counter is a symbolic integer, the simulated node and its mempool evolve with the injections; at every injection the counters of the group must be node counter + own '
        'pending contents + 1, +2, ...; known finding: preparing a new group while an earlier preparation was never handed to inject().',
        'Histories of 1..4 steps (quick) / 1..6 (thorough); groups of transactions; the group injected is the most recently prepared one.',
        'DESIGN.md C25',
    ),
})

CLAIMED.update({
    'C07': (
        'proxy symbolic execution (bvx/z3) of Key.sign / Key.verify / CHECK_SIGNATURE with the curve primitives replaced by ideal-scheme stand-ins (plumbing only)',
        'Bounded symbolic model checking of the data flow around the primitives: secret (32 bytes), message (bytes, opaque hex, real hex text with/without 0x) and every primitive output are symbolic; '
        'asserted: signing succeeds for the 4 curves in specific and generic form, the primitive receives the prescribed message form and key, the encoded signature is exactly its output under the expected '
        'prefix, verification (also via the exported public key and CHECK_SIGNATURE) accepts it and rejects any other message / signature / key / curve. That the primitives are cryptographically correct and '
        'that an independent implementation accepts the signature is OUTSIDE the claim (not encodable).',
        'Plumbing only: libsodium, coincurve, fastecdsa, py_ecc are ideal stand-ins; messages <= 3 bytes (quick).',
        'DESIGN.md C07',
    ),
    'C23': (
        'proxy symbolic execution (bvx/z3) of OperationGroup.sign / hash / binary_payload with ideal-scheme primitive stand-ins and arbitrary symbolic forged bytes',
        'Bounded symbolic model checking: for every operation kind of validation_passes, 4 key curves, symbolic secret, chain id and forged bytes: the signing primitive receives 0x03 + forged (0x02 + chain id + '
        'forged for consensus kinds) in the form its scheme prescribes, the signature field is its output (sig / BLsig), it verifies over those bytes, and hash() is base58 "o" of Blake2b-256(forged + raw '
        'signature); mixed validation passes and consensus operations without a chain id are refused. Cryptographic validity of the primitives is outside the claim.',
        'Forged bytes are arbitrary symbolic bytes (1..3); primitives are ideal stand-ins.',
        'DESIGN.md C23',
    ),
})

CLAIMED.update({
    'C08': (
        'proxy symbolic execution (bvx/z3) of Key import/export/address derivation and validate_mnemonic with ideal-primitive stand-ins and digit-string proxies for the bin/hex/zfill arithmetic',
        'Bounded symbolic model checking: symbolic secrets (4 curves), salts and passphrases (bytes and printable text, 1..4 characters): public_key_hash is base58(tz1..tz4, Blake2b-160(public key)) and HASH_KEY '
        'agrees; secret_key()/from_encoded_key round trips plain and encrypted (the passphrase reaches PBKDF2 as its bytes with the stored salt, another passphrase fails); public key export/import; '
        'validate_mnemonic accepts a sequence of 12/15/18/21/24 symbolic word indices exactly when its checksum bits equal the first bits of (ideal) SHA-256 over the entropy bytes, other lengths are rejected; '
        'from_mnemonic is deterministic and uses email+passphrase. Public-key derivation against an independent implementation is OUTSIDE the claim.',
        'Plumbing only around ideal primitives (curves, PBKDF2, secretbox, SHA-256, BIP-39 seed).',
        'DESIGN.md C08',
    ),
})

NOT_APPLICABLE = {
    'C18': 'Parser is a PLY regex lexer + LALR tables + json; every input is concrete before the code under test runs, '
           'so a solver has nothing to decide (CrossHair regex model also unsound here). See DESIGN.md section 6.',
    'C21': 'Group/field laws are polynomial identities modulo a 381-bit prime evaluated by py_ecc loops (255+ iterations, '
           'pairing); symbolic x symbolic multiplication at that width is out of reach of z3/cvc5. See DESIGN.md section 6.',
    'C30': 'make_patch is difflib (line hashing) and apply_patch is regex-driven; symbolic text is mis-evaluated by the '
           'regex model (spurious, non-reproducing counterexample), concrete text degenerates to enumeration. DESIGN.md section 6.',
}

PENDING_REASON = 'check not built yet in this round (design in DESIGN.md section 4); not claimed until its harness is committed'


def main():
    props = [json.loads(l) for l in open(os.path.join(ROOT, 'properties.jsonl'))]
    checks = []
    na = []
    for p in props:
        pid = p['id']
        if pid in CLAIMED and os.path.exists(os.path.join(ROOT, 'harness', f'{pid}.py')):
            tech, text, note, ref = CLAIMED[pid]
            checks.append({
                'property_id': pid,
                'quick_cmd': f'./check {pid} --tier quick',
                'thorough_cmd': f'./check {pid} --tier thorough',
                'evidence_file': f'/verif/evidence/{pid}.json',
                'replay_cmd_template': './check ' + pid + ' --replay {path}',
                'engine': 'vf',
                'level_claimed': {'category': 'model_checking', 'text': text, 'design_ref': ref},
                'level_note': note,
                'technique': tech,
            })
        elif pid in NOT_APPLICABLE:
            na.append({'property_id': pid, 'reason': NOT_APPLICABLE[pid]})
        else:
            na.append({'property_id': pid, 'reason': PENDING_REASON})
    m = {
        'version': 1,
        'setup_cmd': './setup.sh',
        'hooks': {
            'guard': 'PYTEZOS_VERIF',
            'enable': 'no hooks are compiled into pytezos; checks intercept by namespace shadowing inside the harness process',
            'baseline_off_cmd': 'cd /repo && /venv/bin/python -m pytest -ra -q -p no:cacheprovider --timeout=900 --continue-on-collection-errors',
            'source_commits': [],
            'add_only': True,
        },
        'engines': [
            {'name': 'vf', 'path': '/verif/vf', 'serves_properties': [c['property_id'] for c in checks],
             'kind_free_text': 'solver-based checking of the real code: xh = CrossHair (z3) symbolic execution of the real '
                               'pytezos functions; bvx = own proxy executor running the real code objects on z3 bit-vector/'
                               'integer terms with DFS path exploration; smt = direct z3/cvc5 queries generated from the '
                               "code's tables"},
        ],
        'checks': checks,
        'not_applicable': na,
        'notes': 'All checks regenerate their encoding from /repo on every run (pytezos is imported from /repo/src). '
                 'Exit 0 = every obligation proved within its bound or a listed known finding; exit 1 + VIOLATION line = a '
                 'replayed counterexample outside known_findings.jsonl; exit 3 = harness error (non-reproducing '
                 'counterexample, crash): nothing is claimed.',
    }
    with open(os.path.join(ROOT, 'MANIFEST.json'), 'w') as f:
        json.dump(m, f, indent=1)
    print(f'{len(checks)} claimed, {len(na)} not applicable/pending')


if __name__ == '__main__':
    main()
