"""C16 Arithmetic and numeric conversions are exact."""
from harness import mich
from vf.core import Ob

TARGETS = ['pytezos.michelson.instructions.arithmetic.*Instruction.execute', 'pytezos.michelson.instructions.arithmetic.execute_shift',
           'pytezos.michelson.instructions.boolean.*Instruction.execute', 'pytezos.michelson.instructions.boolean.execute_boolean_add',
           'pytezos.michelson.instructions.base.dispatch_types', 'pytezos.michelson.types.domain.MutezType.from_value',
           'pytezos.michelson.types.core.NatType.from_value']
STUBS = ['format_stdout / repr of operands -> no-op (formatting is not the subject)',
         'int.bit_length() of an unbounded integer is modelled by its defining inequality (bit_length(x) > k <=> |x| >= 2^k)',
         'Python floor divmod is modelled from z3 Euclidean div/mod (model validated on concrete vectors in `engine-selftest`)']
BOUNDS = {'quick': 'ADD/SUB/SUB_MUTEZ/MUL/EDIV/ABS/NEG/ISNAT/INT(nat): unbounded mathematical integers; LSL/LSR/AND/OR/XOR/NOT/BYTES/INT(bytes)/NAT: operands < 2^62 (shifts: any amount) at W=384; byte strings <= 6 bytes',
          'thorough': 'same with bit-level operands < 2^250 at W=640; byte strings <= 12 bytes'}
OUTSIDE = ['BLS12-381 operand types (C21)', 'logical operations on bytes operands (not implemented by pytezos: reported as unsupported, not as wrong results)',
           'operand type combinations that are not well-typed Michelson']
ASSUMPTIONS = ['reference semantics = mathematical definitions in this file (Euclidean division, two\'s complement bit operations, minimal big-endian encodings)']

MUTEZ_MAX = (1 << 63) - 1


# result descriptors of the reference: ('ok', abstraction) | ('fail',)
def _mutez_ok(v):
    """-> truth value: v is a valid mutez amount."""
    return (v >= 0) & (v <= MUTEZ_MAX) if not isinstance(v, int) else 0 <= v <= MUTEZ_MAX


def ref_binary(op, ta, tb, a, b):
    """Reference semantics on (possibly symbolic) integers.  Returns (result_abstraction | None, fail_condition)
    where fail_condition is a truth value; result is meaningful when not failing."""
    if op == 'ADD':
        rt = {('nat', 'nat'): 'nat', ('nat', 'int'): 'int', ('int', 'nat'): 'int', ('int', 'int'): 'int',
              ('timestamp', 'int'): 'timestamp', ('int', 'timestamp'): 'timestamp', ('mutez', 'mutez'): 'mutez'}[(ta, tb)]
        r = a + b
        return (rt, r), (r > MUTEZ_MAX if rt == 'mutez' else False)
    if op == 'SUB':
        rt = {('nat', 'nat'): 'int', ('nat', 'int'): 'int', ('int', 'nat'): 'int', ('int', 'int'): 'int',
              ('timestamp', 'int'): 'timestamp', ('timestamp', 'timestamp'): 'int', ('mutez', 'mutez'): 'mutez'}[(ta, tb)]
        r = a - b
        return (rt, r), (r < 0 if rt == 'mutez' else False)
    if op == 'MUL':
        rt = {('nat', 'nat'): 'nat', ('nat', 'int'): 'int', ('int', 'nat'): 'int', ('int', 'int'): 'int',
              ('mutez', 'nat'): 'mutez', ('nat', 'mutez'): 'mutez'}[(ta, tb)]
        r = a * b
        return (rt, r), (r > MUTEZ_MAX if rt == 'mutez' else False)
    raise KeyError(op)


ARITH_TYPES = {
    'ADD': [('nat', 'nat'), ('nat', 'int'), ('int', 'nat'), ('int', 'int'), ('timestamp', 'int'), ('int', 'timestamp'), ('mutez', 'mutez')],
    'SUB': [('nat', 'nat'), ('nat', 'int'), ('int', 'nat'), ('int', 'int'), ('timestamp', 'int'), ('timestamp', 'timestamp'), ('mutez', 'mutez')],
    'MUL': [('nat', 'nat'), ('nat', 'int'), ('int', 'nat'), ('int', 'int'), ('mutez', 'nat'), ('nat', 'mutez')],
    'EDIV': [('nat', 'nat'), ('nat', 'int'), ('int', 'nat'), ('int', 'int'), ('mutez', 'nat'), ('mutez', 'mutez')],
}
EDIV_RES = {('nat', 'nat'): ('nat', 'nat'), ('nat', 'int'): ('int', 'nat'), ('int', 'nat'): ('int', 'nat'), ('int', 'int'): ('int', 'nat'),
            ('mutez', 'nat'): ('mutez', 'mutez'), ('mutez', 'mutez'): ('nat', 'mutez')}


def _modules():
    import pytezos.michelson.instructions.arithmetic as A
    import pytezos.michelson.instructions.boolean as B
    import pytezos.michelson.instructions.compare as C
    import pytezos.michelson.types.core as core
    import pytezos.michelson.types.domain as domain

    return [A, B, C, core, domain]


def _sym_operand(ex, name, t, backend):
    v = ex.int(name) if backend == 'int' else ex.bv(name)
    if t == 'nat':
        ex.assume(v >= 0)
    elif t == 'mutez':
        ex.assume((v >= 0) & (v <= MUTEZ_MAX))
    if backend == 'bv':
        lim = 1 << ex._lim_bits
        ex.assume((v > -lim) & (v < lim))
    return v


def _exec(prim, operands):
    """operands: list of (type name, value) top-first. Returns ('ok', abstraction-of-top, type_expr) or ('fail', msg)."""
    from vf import bvx

    ins = mich.I({'prim': prim})
    items = [mich.mk(t, v) for t, v in operands]
    with bvx.shadowed(*_modules()), bvx.silenced():
        try:
            out = mich.run_instr(ins, items)
        except mich.Failed as e:
            return ('fail', str(e))
        if len(out) != 1:
            return ('fail', f'stack depth {len(out)}')
        return ('ok', mich.abstract(out[0]), mich.type_expr(out[0]))


def _exec_concrete(prim, operands):
    ins = mich.I({'prim': prim})
    items = [mich.mk(t, v) for t, v in operands]
    try:
        out = mich.run_instr(ins, items)
    except mich.Failed as e:
        return ('fail', str(e))
    return ('ok', mich.abstract(out[0]), mich.type_expr(out[0]))


# ---- ADD / SUB / MUL --------------------------------------------------------------------------
def sym_arith(P, ex):
    from vf import bvx

    op, ta, tb = P['op'], P['ta'], P['tb']
    a = _sym_operand(ex, 'a', ta, 'int')
    b = _sym_operand(ex, 'b', tb, 'int')
    bvx.apply_regions(ex, {'a': a, 'b': b}, P)
    (rt, r), fail = ref_binary(op, ta, tb, a, b)
    got = _exec(op, [(ta, a), (tb, b)])
    if got[0] == 'fail':
        ex.check(fail, f'{op} {ta} {tb} fails only where Michelson fails')
    else:
        ex.check(bvx.sym_not(fail), f'{op} {ta} {tb} must fail (mutez overflow/underflow)')
        ex.check(mich.deq(got[1], (rt, r)), f'{op} {ta} {tb} result')
        ex.check(got[2] == {'prim': rt}, 'result type')


def conc_arith(P, w):
    op, ta, tb = P['op'], P['ta'], P['tb']
    a, b = int(w['a']), int(w['b'])
    (rt, r), fail = ref_binary(op, ta, tb, a, b)
    got = _exec_concrete(op, [(ta, a), (tb, b)])
    if got[0] == 'fail':
        return {'ok': bool(fail), 'observed': got, 'expected': 'fail' if fail else [rt, str(r)]}
    ok = (not fail) and got[1] == (rt, r) and got[2] == {'prim': rt}
    return {'ok': ok, 'observed': str(got), 'expected': 'fail' if fail else [rt, str(r)]}


# ---- SUB_MUTEZ --------------------------------------------------------------------------------
def sym_sub_mutez(P, ex):
    from vf import bvx

    a = _sym_operand(ex, 'a', 'mutez', 'int')
    b = _sym_operand(ex, 'b', 'mutez', 'int')
    bvx.apply_regions(ex, {'a': a, 'b': b}, P)
    got = _exec('SUB_MUTEZ', [('mutez', a), ('mutez', b)])
    if got[0] == 'fail':
        ex.fail_here('SUB_MUTEZ never fails (returns None on underflow)')
    if got[1][0] == 'none':
        ex.check(a - b < 0, 'SUB_MUTEZ returns None only for a negative difference')
    else:
        ex.check((a - b >= 0) & mich.deq(got[1], ('some', ('mutez', a - b))), 'SUB_MUTEZ result')
    ex.check(got[2] == {'prim': 'option', 'args': [{'prim': 'mutez'}]}, 'result type')


def conc_sub_mutez(P, w):
    a, b = int(w['a']), int(w['b'])
    got = _exec_concrete('SUB_MUTEZ', [('mutez', a), ('mutez', b)])
    exp = ('none',) if a - b < 0 else ('some', ('mutez', a - b))
    return {'ok': got[0] == 'ok' and got[1] == exp, 'observed': str(got), 'expected': str(exp)}


# ---- EDIV -------------------------------------------------------------------------------------
def sym_ediv(P, ex):
    from vf import bvx

    ta, tb = P['ta'], P['tb']
    a = _sym_operand(ex, 'a', ta, 'int')
    b = _sym_operand(ex, 'b', tb, 'int')
    bvx.apply_regions(ex, {'a': a, 'b': b}, P)
    qt, rt = EDIV_RES[(ta, tb)]
    got = _exec('EDIV', [(ta, a), (tb, b)])
    if got[0] == 'fail':
        ex.fail_here('EDIV never fails (returns None for a zero divisor)')
    if got[1][0] == 'none':
        ex.check(b == 0, 'EDIV returns None only for a zero divisor')
    else:
        ex.check(b != 0, 'EDIV by zero returns None')
        _, (_, (gqt, q), (grt, r)) = got[1]
        absb = abs(b)
        # Euclidean division is *defined* by these two facts (q, r are then unique)
        ex.check((a == q * b + r) & (r >= 0) & (r < absb), 'a = q*b + r with 0 <= r < |b|')
        ex.check((gqt == qt) & (grt == rt), 'quotient / remainder types')
    ex.check(got[2] == {'prim': 'option', 'args': [{'prim': 'pair', 'args': [{'prim': qt}, {'prim': rt}]}]}, 'result type')


def conc_ediv(P, w):
    ta, tb = P['ta'], P['tb']
    a, b = int(w['a']), int(w['b'])
    qt, rt = EDIV_RES[(ta, tb)]
    got = _exec_concrete('EDIV', [(ta, a), (tb, b)])
    if b == 0:
        exp = ('none',)
    else:
        r = a % abs(b)
        q = (a - r) // b
        exp = ('some', ('pair', (qt, q), (rt, r)))
    ok = got[0] == 'ok' and got[1] == exp and got[2] == {'prim': 'option', 'args': [{'prim': 'pair', 'args': [{'prim': qt}, {'prim': rt}]}]}
    return {'ok': ok, 'observed': str(got), 'expected': str(exp)}


# ---- unary: ABS NEG ISNAT INT(nat) NOT ----------------------------------------------------------
def ref_unary(op, t, a):
    if op == 'ABS':
        return ('nat', abs(a))
    if op == 'NEG':
        return ('int', -a)
    if op == 'INT':
        return ('int', a)
    if op == 'NOT':
        return ('int', -a - 1)
    raise KeyError(op)


UNARY = [('ABS', 'int'), ('NEG', 'int'), ('NEG', 'nat'), ('INT', 'nat'), ('NOT', 'int'), ('NOT', 'nat')]


def sym_unary(P, ex):
    op, t = P['op'], P['t']
    a = _sym_operand(ex, 'a', t, 'int' if op != 'NOT' else 'bv')
    got = _exec(op, [(t, a)])
    if got[0] == 'fail':
        ex.fail_here(f'{op} {t} never fails')
    rt, r = ref_unary(op, t, a)
    ex.check(mich.deq(got[1], (rt, r)), f'{op} {t} result')
    ex.check(got[2] == {'prim': rt}, 'result type')


def conc_unary(P, w):
    op, t = P['op'], P['t']
    a = int(w['a'])
    got = _exec_concrete(op, [(t, a)])
    exp = ref_unary(op, t, a)
    return {'ok': got[0] == 'ok' and got[1] == exp and got[2] == {'prim': exp[0]}, 'observed': str(got), 'expected': str(exp)}


def sym_isnat(P, ex):
    a = ex.int('a')
    got = _exec('ISNAT', [('int', a)])
    if got[0] == 'fail':
        ex.fail_here('ISNAT never fails')
    if got[1][0] == 'none':
        ex.check(a < 0, 'ISNAT None only for negative')
    else:
        ex.check((a >= 0) & mich.deq(got[1], ('some', ('nat', a))), 'ISNAT Some n')
    ex.check(got[2] == {'prim': 'option', 'args': [{'prim': 'nat'}]}, 'type')


def conc_isnat(P, w):
    a = int(w['a'])
    got = _exec_concrete('ISNAT', [('int', a)])
    exp = ('none',) if a < 0 else ('some', ('nat', a))
    return {'ok': got[0] == 'ok' and got[1] == exp, 'observed': str(got), 'expected': str(exp)}


# ---- zero comparisons EQ NEQ LT GT LE GE --------------------------------------------------------
ZCMP = {'EQ': lambda x: x == 0, 'NEQ': lambda x: x != 0, 'LT': lambda x: x < 0, 'GT': lambda x: x > 0,
        'LE': lambda x: x <= 0, 'GE': lambda x: x >= 0}


def sym_zcmp(P, ex):
    op = P['op']
    a = ex.int('a')
    got = _exec(op, [('int', a)])
    if got[0] == 'fail':
        ex.fail_here(f'{op} never fails')
    exp = ZCMP[op](a)
    ex.check(got[1][1] == exp, f'{op} result')
    ex.check(got[2] == {'prim': 'bool'}, 'type')


def conc_zcmp(P, w):
    a = int(w['a'])
    got = _exec_concrete(P['op'], [('int', a)])
    exp = ('bool', ZCMP[P['op']](a))
    return {'ok': got[0] == 'ok' and got[1] == exp, 'observed': str(got), 'expected': str(exp)}


# ---- shifts and logical ops (bit-vector backend) ------------------------------------------------
def sym_shift(P, ex):
    from vf import bvx

    op = P['op']
    ex._lim_bits = P['bits']
    a = _sym_operand(ex, 'a', 'nat', 'bv')
    b = ex.bv('b')
    ex.assume((b >= 0) & (b < (1 << 20)))
    got = _exec(op, [('nat', a), ('nat', b)])
    if got[0] == 'fail':
        ex.check(b > 256, f'{op} fails only for shifts above 256')
        return
    ex.check(b <= 256, f'{op} must fail for shifts above 256')
    if op == 'LSL':
        r = a << b
    else:
        r = a >> b
    ex.check(mich.deq(got[1], ('nat', r)), f'{op} result')
    if op == 'LSR':
        # defining property of the right shift: a = r * 2^b + rem, 0 <= rem < 2^b
        rem = a - (r << b)
        ex.check((rem >= 0) & (rem < (bvx.SymInt(bvx.bv(1)) << b)), 'LSR is floor division by 2^b')
    ex.check(got[2] == {'prim': 'nat'}, 'type')


def conc_shift(P, w):
    op = P['op']
    a, b = int(w['a']), int(w['b'])
    got = _exec_concrete(op, [('nat', a), ('nat', b)])
    if b > 256:
        return {'ok': got[0] == 'fail', 'observed': str(got), 'expected': 'fail'}
    exp = ('nat', a << b if op == 'LSL' else a >> b)
    return {'ok': got[0] == 'ok' and got[1] == exp, 'observed': str(got), 'expected': str(exp)}


LOGIC = [('AND', 'nat', 'nat'), ('AND', 'int', 'nat'), ('OR', 'nat', 'nat'), ('XOR', 'nat', 'nat')]


def _bit(x, k):
    """k-th bit of the infinite two's complement representation (k concrete)."""
    return (x >> k) & 1


def sym_logic(P, ex):
    op, ta, tb = P['op'], P['ta'], P['tb']
    ex._lim_bits = P['bits']
    a = _sym_operand(ex, 'a', ta, 'bv')
    b = _sym_operand(ex, 'b', tb, 'bv')
    got = _exec(op, [(ta, a), (tb, b)])
    if got[0] == 'fail':
        ex.fail_here(f'{op} {ta} {tb} never fails')
    t, r = got[1]
    ex.check((t == 'nat') & (r >= 0), 'result is a nat')
    # bitwise definition, bit by bit over the whole width
    ok = True
    for k in range(0, P['bits'] + 2):
        ba, bb, br = _bit(a, k), _bit(b, k), _bit(r, k)
        if op == 'AND':
            c = br == (ba & bb)
        elif op == 'OR':
            c = br == (ba | bb)
        else:
            c = br == (ba ^ bb)
        ok = mich._and(ok, c)
    ex.check(ok, f'{op} is bitwise on two\'s complement')
    ex.check(r < (1 << (P['bits'] + 1)), 'no bits above the operands')


def conc_logic(P, w):
    op, ta, tb = P['op'], P['ta'], P['tb']
    a, b = int(w['a']), int(w['b'])
    got = _exec_concrete(op, [(ta, a), (tb, b)])
    exp = ('nat', {'AND': a & b, 'OR': a | b, 'XOR': a ^ b}[op])
    return {'ok': got[0] == 'ok' and got[1] == exp, 'observed': str(got), 'expected': str(exp)}


def sym_logic_bool(P, ex):
    op = P['op']
    a, b = ex.bool('a'), ex.bool('b')
    from vf import bvx

    if op == 'NOT':
        got = _exec('NOT', [('bool', a)])
        exp = bvx.sym_not(a)
    else:
        got = _exec(op, [('bool', a), ('bool', b)])
        exp = {'AND': a & b, 'OR': a | b, 'XOR': a != b}[op]
    if got[0] == 'fail':
        ex.fail_here(f'{op} bool never fails')
    ex.check(got[1][1] == exp, f'{op} on bool')
    ex.check(got[2] == {'prim': 'bool'}, 'type')


def conc_logic_bool(P, w):
    op = P['op']
    a, b = bool(w['a']), bool(w.get('b', False))
    if op == 'NOT':
        got = _exec_concrete('NOT', [('bool', a)])
        exp = not a
    else:
        got = _exec_concrete(op, [('bool', a), ('bool', b)])
        exp = {'AND': a and b, 'OR': a or b, 'XOR': a != b}[op]
    return {'ok': got[0] == 'ok' and got[1] == ('bool', exp), 'observed': str(got), 'expected': exp}


# ---- BYTES / INT(bytes) / NAT -------------------------------------------------------------------
def _ref_from_bytes(items, signed):
    """Big-endian value of a byte list (items may be proxies)."""
    v = 0
    for it in items:
        v = (v << 8) | it
    if signed and len(items):
        top = items[0]
        v = v - (((top >> 7) & 1) << (8 * len(items)))
    return v


def sym_bytes_of(P, ex):
    from vf import bvx

    t = P['t']
    ex._lim_bits = P['bits']
    v = _sym_operand(ex, 'v', t, 'bv')
    bvx.apply_regions(ex, {'v': v}, P)
    got = _exec('BYTES', [(t, v)])
    if got[0] == 'fail':
        ex.fail_here(f'BYTES {t} never fails')
    _, b = got[1]
    items = list(b.items) if isinstance(b, bvx.SymBytes) else list(b)
    signed = t == 'int'
    ex.check(_ref_from_bytes(items, signed) == v, 'the bytes denote the number (big endian' + (", two's complement)" if signed else ')'))
    # minimality
    if len(items) == 0:
        ex.check(v == 0, 'only zero is the empty byte string')
    else:
        ex.check(v != 0, 'zero is the empty byte string')
        if not signed:
            ex.check(items[0] != 0, 'no leading zero byte')
        elif len(items) >= 2:
            red0 = (items[0] == 0) & (items[1] < 0x80)
            redf = (items[0] == 0xFF) & (items[1] >= 0x80)
            ex.check(bvx.sym_not(bvx.sym_or(red0, redf)), 'no redundant sign byte')
    # and back
    back = _exec('INT' if signed else 'NAT', [('bytes', b)])
    if back[0] == 'fail':
        ex.fail_here('conversion back fails')
    ex.check(mich.deq(back[1], (t, v)), 'converting to bytes and back returns the number')
    ex.check(got[2] == {'prim': 'bytes'}, 'type')


def conc_bytes_of(P, w):
    t = P['t']
    v = int(w['v'])
    got = _exec_concrete('BYTES', [(t, v)])
    if got[0] == 'fail':
        return {'ok': False, 'observed': str(got)}
    b = got[1][1]
    signed = t == 'int'
    if v == 0:
        exp = b''
    else:
        n = 1
        while True:
            try:
                exp = v.to_bytes(n, 'big', signed=signed)
                break
            except OverflowError:
                n += 1
    back = _exec_concrete('INT' if signed else 'NAT', [('bytes', b)])
    ok = b == exp and back[0] == 'ok' and back[1] == (t, v)
    return {'ok': ok, 'observed': {'bytes': b.hex(), 'back': str(back)}, 'expected': exp.hex()}


def sym_of_bytes(P, ex):
    from vf import bvx

    op, n = P['op'], P['n']
    b = ex.bytes('b', n)
    got = _exec(op, [('bytes', b)])
    if got[0] == 'fail':
        ex.fail_here(f'{op} bytes never fails')
    signed = op == 'INT'
    ex.check(mich.deq(got[1], ('int' if signed else 'nat', _ref_from_bytes(list(b.items), signed))), f'{op} of bytes')
    ex.check(got[2] == {'prim': 'int' if signed else 'nat'}, 'type')


def conc_of_bytes(P, w):
    op = P['op']
    b = bytes(w['b'])
    got = _exec_concrete(op, [('bytes', b)])
    exp = ('int' if op == 'INT' else 'nat', int.from_bytes(b, 'big', signed=op == 'INT'))
    return {'ok': got[0] == 'ok' and got[1] == exp, 'observed': str(got), 'expected': str(exp)}


# ---- engine self test (translator validation on concrete vectors) --------------------------------
def conc_selftest(P, w):
    import itertools

    import z3

    from vf import bvx

    ex = bvx.Explorer(W=96)
    bvx.EX = ex
    n = 0
    try:
        vals = [0, 1, -1, 2, -2, 7, -7, 63, 64, -64, 127, 128, -128, -129, 255, 256, 2**31, -2**31, 2**62 + 5, -(2**62) - 5]
        for a, b in itertools.product(vals, vals):
            A, B = bvx.IntZ(z3.IntVal(a)), bvx.IntZ(z3.IntVal(b))
            if b != 0:
                q, r = divmod(A, B)
                if (z3.simplify(q.e).as_long(), z3.simplify(r.e).as_long()) != divmod(a, b):
                    return {'ok': False, 'observed': f'IntZ divmod({a},{b})'}
            SA, SB = bvx.SymInt(z3.BitVecVal(a, 96)), bvx.SymInt(z3.BitVecVal(b, 96))
            if b != 0:
                q, r = divmod(SA, SB)
                if (z3.simplify(q.e).as_signed_long(), z3.simplify(r.e).as_signed_long()) != divmod(a, b):
                    return {'ok': False, 'observed': f'SymInt divmod({a},{b})'}
            for name, f in (('and', lambda x, y: x & y), ('or', lambda x, y: x | y), ('xor', lambda x, y: x ^ y)):
                if z3.simplify(f(SA, SB).e).as_signed_long() != f(a, b):
                    return {'ok': False, 'observed': f'SymInt {name}({a},{b})'}
            if 0 <= b < 20:
                if z3.simplify((SA >> b).e).as_signed_long() != a >> b:
                    return {'ok': False, 'observed': f'SymInt {a}>>{b}'}
            n += 1
        for a in vals:
            SA = bvx.SymInt(z3.BitVecVal(a, 96))
            if z3.simplify(SA.bit_length().e).as_signed_long() != a.bit_length():
                return {'ok': False, 'observed': f'bit_length({a})'}
            for length in (0, 1, 2, 8, 9):
                for signed in (False, True):
                    try:
                        exp = a.to_bytes(length, 'big', signed=signed)
                    except OverflowError:
                        exp = 'overflow'
                    ex.begin()
                    try:
                        got = bytes(z3.simplify(bvx.bv(i)).as_long() for i in SA.to_bytes(length, 'big', signed=signed).items)
                    except OverflowError:
                        got = 'overflow'
                    ex.end()
                    if got != exp:
                        return {'ok': False, 'observed': f'to_bytes({a},{length},{signed}) -> {got!r} != {exp!r}'}
                    if exp != 'overflow':
                        back = bvx._Int.from_bytes(bvx.SymBytes([bvx.SymInt(z3.BitVecVal(x, 96)) for x in exp]), 'big', signed=signed)
                        if z3.simplify(back.e).as_signed_long() != int.from_bytes(exp, 'big', signed=signed):
                            return {'ok': False, 'observed': f'from_bytes({exp!r},{signed})'}
    finally:
        bvx.EX = None
    return {'ok': True, 'vectors': n}


def sym_selftest(P, ex):
    from vf import bvx

    saved = bvx.EX
    r = conc_selftest(P, {})
    bvx.EX = saved
    if not r['ok']:
        ex.fail_here('engine model of a Python builtin disagrees with CPython: ' + r['observed'])
    ex.check(True)


# ---- catalogue --------------------------------------------------------------------------------
def obligations(tier):
    q = tier == 'quick'
    t = 60 if q else 600
    bits = 62 if q else 250
    Wbv = 384 if q else 640
    obs = [Ob('engine-selftest', 'bvx', sym_selftest, conc_selftest, timeout=120,
              bounds='concrete: proxy models of divmod / bit ops / bit_length / to_bytes / from_bytes vs CPython on 400 operand pairs')]
    for op in ('ADD', 'SUB', 'MUL'):
        for ta, tb in ARITH_TYPES[op]:
            obs.append(Ob(f'{op}/{ta}-{tb}', 'bvx', sym_arith, conc_arith, {'op': op, 'ta': ta, 'tb': tb}, timeout=t,
                          bounds='operands: all integers of the operand types (unbounded)', targets=TARGETS))
    for ta, tb in ARITH_TYPES['EDIV']:
        obs.append(Ob(f'EDIV/{ta}-{tb}', 'bvx', sym_ediv, conc_ediv, {'ta': ta, 'tb': tb}, timeout=t,
                      bounds='operands: all integers of the operand types (unbounded), symbolic divisor', targets=TARGETS))
    obs.append(Ob('SUB_MUTEZ', 'bvx', sym_sub_mutez, conc_sub_mutez, timeout=t, bounds='all mutez pairs', targets=TARGETS))
    for op, ty in UNARY:
        P = {'op': op, 't': ty, 'bits': bits}
        obs.append(Ob(f'{op}/{ty}', 'bvx', _with_bits(sym_unary), conc_unary, P, timeout=t, opts={'W': Wbv},
                      bounds='all integers' if op != 'NOT' else f'|a| < 2^{bits}', targets=TARGETS))
    obs.append(Ob('ISNAT', 'bvx', sym_isnat, conc_isnat, timeout=t, bounds='all integers', targets=TARGETS))
    for op in ZCMP:
        obs.append(Ob(f'{op}', 'bvx', sym_zcmp, conc_zcmp, {'op': op}, timeout=t, bounds='all integers', targets=TARGETS))
    for op in ('LSL', 'LSR'):
        obs.append(Ob(f'{op}', 'bvx', sym_shift, conc_shift, {'op': op, 'bits': bits}, timeout=t * 2, opts={'W': Wbv + 260 - 62 if q else 640},
                      bounds=f'a < 2^{bits}, shift amount any nat < 2^20', targets=TARGETS))
    for op, ta, tb in LOGIC:
        obs.append(Ob(f'{op}/{ta}-{tb}', 'bvx', sym_logic, conc_logic, {'op': op, 'ta': ta, 'tb': tb, 'bits': bits}, timeout=t * 2,
                      opts={'W': bits + 34}, bounds=f'|operands| < 2^{bits}', targets=TARGETS))
    for op in ('AND', 'OR', 'XOR', 'NOT'):
        obs.append(Ob(f'{op}/bool', 'bvx', sym_logic_bool, conc_logic_bool, {'op': op}, timeout=t, bounds='all booleans', targets=TARGETS))
    for ty in ('int', 'nat'):
        obs.append(Ob(f'BYTES/{ty}', 'bvx', sym_bytes_of, conc_bytes_of, {'t': ty, 'bits': bits}, timeout=t * 3, opts={'W': bits + 34},
                      bounds=f'|v| < 2^{bits}', targets=TARGETS))
    for op in ('INT', 'NAT'):
        for n in ((0, 1, 2, 6) if q else (0, 1, 2, 3, 8, 12)):
            obs.append(Ob(f'{op}/bytes/n={n}', 'bvx', sym_of_bytes, conc_of_bytes, {'op': op, 'n': n}, timeout=t, opts={'W': 8 * 13 + 8},
                          bounds=f'every byte string of length {n}', targets=TARGETS))
    return obs


def _with_bits(fn):
    def wrapped(P, ex):
        ex._lim_bits = P['bits']
        return fn(P, ex)

    return wrapped
