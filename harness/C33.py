"""C33 Registered global constants expand wherever they occur."""
from harness import mbv, mich
from vf.core import Ob

TARGETS = ['pytezos.context.impl.ExecutionContext.register_global_constant', 'pytezos.context.impl.ExecutionContext.resolve_global_constants',
           'pytezos.michelson.forge.forge_micheline']
STUBS = ['forge_script_expr (Blake2b + Base58Check of the packed expression) -> functionally consistent injective token per distinct byte string',
         'str(int)/int(str) -> opaque decimal token']
BOUNDS = {'quick': 'script skeleton with 7 reference sites, every pair of them active per obligation (type, code incl. sequences nested directly in sequences and instruction arguments, data incl. pairs and lists); '
                   '3 registered constants in a chain/diamond graph (solver-chosen edges) + one unknown hash; which constant each site names is chosen by the solver; integer leaves symbolic',
          'thorough': 'same with 4 constants'}
OUTSIDE = ['larger scripts / more constants', 'cyclic reference graphs (cannot be registered: the hash of a constant depends on its content)']
ASSUMPTIONS = ['expansion = substitution by hash of the expression exactly as registered; everything else unchanged; KeyError for unknown hashes']

UNKNOWN = 'exprUNKNOWNxxxxxxxxxxxxxxxxxxxxxxxxxxxxxxxxxxxxxxxxxxxxxxx'


def ref(h):
    return {'prim': 'constant', 'args': [{'string': h}]}


class Hasher:
    """forge_script_expr stand-in: equal byte strings get equal tokens (functional consistency), different ones different tokens."""

    def __init__(self):
        self.seen = []

    def __call__(self, packed):
        for b, tok in self.seen:
            if len(b) == len(packed) and bool(b == packed):
                return tok
        tok = 'exprHASH%02d' % len(self.seen) + 'x' * 44
        self.seen.append((packed, tok))
        return tok


def skeleton(sites):
    """sites: list of 7 Micheline nodes placed at the reference sites"""
    t0, t1, c0, c1, c2, d0, d1 = sites
    return [
        {'prim': 'parameter', 'args': [t0]},
        {'prim': 'storage', 'args': [{'prim': 'pair', 'args': [t1, {'prim': 'int'}]}]},
        {'prim': 'code', 'args': [[
            {'prim': 'DROP'},
            c0,
            [[c1], {'prim': 'UNIT'}],
            {'prim': 'DIP', 'args': [[{'prim': 'IF', 'args': [[c2], []]}]]},
            {'prim': 'PUSH', 'args': [{'prim': 'pair', 'args': [{'prim': 'int'}, {'prim': 'int'}]}, {'prim': 'Pair', 'args': [d0, {'int': '2'}]}]},
            {'prim': 'PUSH', 'args': [{'prim': 'list', 'args': [{'prim': 'int'}]}, [[d1], {'int': '1'}]], 'annots': ['@x']},
        ]]},
    ]


PLAIN = [{'prim': 'unit'}, {'prim': 'nat'}, {'prim': 'SWAP'}, {'prim': 'NOW'}, {'prim': 'LEVEL'}, {'int': '7'}, {'int': '9'}]


def ref_resolve(node, table):
    if isinstance(node, dict):
        if node.get('prim') == 'constant':
            h = node['args'][0]['string']
            if h not in table:
                raise KeyError(h)
            return ref_resolve(table[h], table)
        if node.get('args'):
            return {k: (v if k != 'args' else [ref_resolve(a, table) for a in v]) for k, v in node.items()}
        return node
    if isinstance(node, list):
        return [ref_resolve(x, table) for x in node]
    return node


def _setup(n_consts, leaf, choose):
    """Registers the constants through the real API (with the hash stub) and returns (context, hashes, table, hasher)."""
    import pytezos.context.impl as I

    ctx = I.ExecutionContext()
    hashes = []
    table = {}
    for i in range(n_consts):
        # body of constant i: a small expression with a symbolic leaf and references to earlier constants chosen by the solver
        body = [{'int': leaf(f'k{i}')}, {'prim': 'Pair', 'args': [{'int': leaf(f'k{i}b')}, {'prim': 'Unit'}]}]
        for j in range(i):
            if choose(f'edge{j}_{i}', 0, 1):
                body.append([ref(hashes[j])])        # reference nested inside a sequence inside the sequence
                body.append({'prim': 'Some', 'args': [ref(hashes[j])]})
        expr = body if i % 2 == 0 else {'prim': 'Pair', 'args': [body, {'prim': 'Unit'}]}
        ctx.register_global_constant(expr)
        h = I.forge_script_expr(I.forge_micheline(expr))
        hashes.append(h)
        table[h] = expr
    return ctx, hashes, table


def _env():
    import contextlib

    import pytezos.context.impl as I

    @contextlib.contextmanager
    def cm():
        F = mbv.forge_module()
        saved = (I.forge_micheline, I.forge_script_expr)
        I.forge_micheline, I.forge_script_expr = F.forge_micheline, Hasher()
        try:
            with mbv.env():
                yield
        finally:
            I.forge_micheline, I.forge_script_expr = saved

    return cm()


def sym_expand(P, ex):
    from harness.C05 import deq
    from vf import bvx

    n = P['n']
    ex.int_backend = 'bv'

    def leaf(name):
        v = ex.bv(name)
        ex.assume((v >= 0) & (v < 64))
        return bvx.DecStr(v)

    def choose(name, lo, hi):
        return mbv._choose(ex, name, lo, hi)

    with _env():
        ctx, hashes, table = _setup(n, leaf, choose)
        ex.check(set(ctx.global_constants.keys()) == set(hashes), 'every constant is registered under the hash of the expression as given')
        sites = []
        unknown_used = False
        for s in range(7):
            k = choose(f'site{s}', 0, n + 1) if s in P['sites'] else 0
            if k == 0:
                sites.append(PLAIN[s])
            elif k <= n:
                sites.append(ref(hashes[k - 1]))
            else:
                sites.append(ref(UNKNOWN))
                unknown_used = True
        script = skeleton(sites)
        try:
            got = ctx.resolve_global_constants(script)
        except KeyError:
            if not unknown_used:
                ex.fail_here('expansion raised KeyError although every referenced constant is registered')
            ex.check(True)
            return
        except (bvx.Abort, bvx.Found, bvx.Inconclusive):
            raise
        except Exception as e:  # noqa
            ex.fail_here(f'expansion failed: {type(e).__name__}: {e}')
        if unknown_used:
            ex.fail_here('expansion succeeded although the script references an unknown hash')
        exp = ref_resolve(script, table)
        ex.check(deq(got, exp), 'every reference is replaced by the registered expression (recursively), everything else unchanged')


def conc_expand(P, w):
    import pytezos.context.impl as I

    n = P['n']

    def leaf(name):
        return str(int(w.get(name, 0)))

    def choose(name, lo, hi):
        return int(w.get(name, lo))

    ctx = I.ExecutionContext()
    hashes, table = [], {}
    for i in range(n):
        body = [{'int': leaf(f'k{i}')}, {'prim': 'Pair', 'args': [{'int': leaf(f'k{i}b')}, {'prim': 'Unit'}]}]
        for j in range(i):
            if choose(f'edge{j}_{i}', 0, 1):
                body.append([ref(hashes[j])])
                body.append({'prim': 'Some', 'args': [ref(hashes[j])]})
        expr = body if i % 2 == 0 else {'prim': 'Pair', 'args': [body, {'prim': 'Unit'}]}
        ctx.register_global_constant(expr)
        h = I.forge_script_expr(I.forge_micheline(expr))
        hashes.append(h)
        table[h] = expr
    if set(ctx.global_constants.keys()) != set(hashes):
        return {'ok': False, 'observed': 'registry keys differ from the hashes of the expressions as registered'}
    sites, unknown_used = [], False
    for s in range(7):
        k = choose(f'site{s}', 0, n + 1) if s in P['sites'] else 0
        if k == 0:
            sites.append(PLAIN[s])
        elif k <= n:
            sites.append(ref(hashes[k - 1]))
        else:
            sites.append(ref(UNKNOWN))
            unknown_used = True
    script = skeleton(sites)
    try:
        got = ctx.resolve_global_constants(script)
    except KeyError as e:
        return {'ok': unknown_used, 'observed': f'KeyError {e}', 'expected': 'KeyError' if unknown_used else 'expansion'}
    except Exception as e:  # noqa
        return {'ok': False, 'observed': f'{type(e).__name__}: {e}'}
    if unknown_used:
        return {'ok': False, 'observed': 'expansion succeeded', 'expected': 'KeyError (unknown hash)'}
    exp = ref_resolve(script, table)
    return {'ok': got == exp, 'observed': got, 'expected': exp}


def obligations(tier):
    q = tier == 'quick'
    n = 3 if q else 4
    import itertools

    names = ['type:parameter', 'type:in-pair', 'code:seq', 'code:seq-in-seq', 'code:instr-arg', 'data:in-pair', 'data:seq-in-seq']
    obs = []
    for pair in itertools.combinations(range(7), 2):
        obs.append(Ob(f'expand/sites={names[pair[0]]}+{names[pair[1]]}', 'bvx', sym_expand, conc_expand, {'n': n, 'sites': list(pair)},
                      timeout=300 if q else 1800, opts={'W': 32},
                      bounds=f'{n} constants (solver-chosen reference edges); the two named sites each name nothing / any constant / an unknown hash; leaves symbolic in 0..63',
                      targets=TARGETS))
    return obs
