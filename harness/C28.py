"""C28 Multi-node clients rotate through nodes regardless of failures."""
from vf.core import Ob
from vf.xh import assume

TARGETS = ['pytezos.rpc.node.RpcMultiNode.request', 'pytezos.rpc.node.RpcMultiNode.__init__', 'pytezos.rpc.node.RpcNode.request']
STUBS = ['requests.request -> fake recording the URL; outcome per request chosen by the solver: 200 | 404 (RpcError) | '
         '500 non-transient (RpcError) | transport exception (requests ConnectionError)',
         'pytezos.rpc.node.sleep -> no-op', 'json.dumps/pformat in log lines -> constant']
BOUNDS = {'quick': 'nodes 1..4 (one obligation each), 5 requests, every outcome vector over 4 outcome kinds symbolic',
          'thorough': 'nodes 1..4, 7 requests, every outcome vector over 4 outcome kinds symbolic'}
OUTSIDE = ['more than 4 nodes / longer request sequences', 'HTTP transport itself']
ASSUMPTIONS = ['a failing request is one for which RpcNode.request raises (RpcError for an HTTP error status, or the '
               'transport exception raised by requests)']

OK, E404, E500, ECONN = range(4)


class _Resp:
    def __init__(self, kind):
        self.status_code = {OK: 200, E404: 404, E500: 500}[kind]
        self.text = 'x'
        self.headers = {'content-type': 'text/plain'}

    def json(self):
        return {}


def _drive(n, outcomes):
    import requests.exceptions

    from pytezos.rpc import node as N
    from vf.stubs import const_stub, json_log_stub, patched

    uris = [f'http://node{i}' for i in range(n)]
    hits = []
    it = iter(outcomes)

    def fake_request(method, url, **kw):
        hits.append(int(url[len('http://node'):].split('/')[0]))
        kind = next(it)
        if kind == ECONN:
            raise requests.exceptions.ConnectionError('refused')
        return _Resp(kind)

    with patched((N.requests, 'request', fake_request), (N, 'sleep', lambda d: None),
                 (N, 'json', json_log_stub(N.json)), (N, 'pformat', const_stub('<pformat>'))):
        mn = N.RpcMultiNode(uris)
        for _ in outcomes:
            try:
                mn.request('GET', 'chains/main/blocks/head')
            except (N.RpcError, requests.exceptions.ConnectionError):
                pass
    return hits


def pick(c, n):
    for k in range(n):
        if c == k:
            return k
    assume(False)


def _mk(k):
    params = ', '.join(f'o{i}: int' for i in range(k))
    ns = {'pick': pick, '_drive': _drive}
    exec(f'def sym(P, {params}) -> bool:\n'
         f'    n = P["n"]\n'
         f'    outs = [pick(o, 4) for o in [{", ".join("o%d" % i for i in range(k))}]]\n'
         f'    hits = _drive(n, outs)\n'
         f'    return hits == [i % n for i in range(len(outs))]\n', ns)
    return ns['sym']


def concrete(P, w):
    k, n = P['k'], P['n']
    outs = [int(w[f'o{i}']) for i in range(k)]
    hits = _drive(n, outs)
    exp = [i % n for i in range(k)]
    return {'ok': hits == exp, 'observed': hits, 'expected': exp}


def obligations(tier):
    k = 5 if tier == 'quick' else 7
    return [Ob(name=f'rotation/n={n}/k={k}', engine='xh', sym=_mk(k), concrete=concrete, P={'k': k, 'n': n},
               timeout=120 if tier == 'quick' else 900, bounds=f'{n} node(s), {k} requests, outcome of each request symbolic over 4 kinds',
               targets=TARGETS, stubs=STUBS) for n in (1, 2, 3, 4)]
