"""C26 RPC requests retry exactly the transient node failures."""
from vf.core import Ob
from vf.xh import assume

TARGETS = ['pytezos.rpc.node.RpcNode.request', 'pytezos.rpc.node._is_transient_response',
           'pytezos.rpc.node.RpcError.from_response', 'pytezos.rpc.node.RpcError.from_errors']
STUBS = ['json.dumps / pformat inside log lines -> constant (log formatting is not the subject)',
         'requests.request -> scripted fake response (class chosen by solver, status code symbolic inside the class)',
         'pytezos.rpc.node.sleep -> records the delay']
BOUNDS = 'response sequences of length <= 7 over 18 response classes (incl. two-error bodies, bodies labelled JSON that do not parse, and 4xx/401/404 responses whose body looks like a transient server error); status code any integer inside the class range'
OUTSIDE = ['response bodies outside the 18 classes (e.g. JSON bodies that are not lists)', 'HTTP transport, timeouts raised by requests']
ASSUMPTIONS = ['transient = 5xx whose JSON errors are kind=temporary and not proto.*, or 5xx whose text mentions prevalidator.ml (as the property states)']

# class -> (lo, hi, transient, kind)
(OK, C401, C404, C4XX, T_JSON, P_JSON, PROTO_T, T_TEXT, NONJSON, TEMP_THEN_PROTO, PROTO_THEN_TEMP, PERM_THEN_TEMP, BADJSON, BADJSON_T,
 C4XX_T_JSON, C4XX_T_TEXT, C401_T_JSON, C404_T_TEXT) = range(18)
NCLS = 18
CLASS_NAMES = ['200', '401', '404', '4xx', '5xx-json-temporary', '5xx-json-permanent', '5xx-json-proto-temporary',
               '5xx-prevalidator-text', '5xx-non-json', '5xx-json-[temporary,proto]', '5xx-json-[proto-temporary,temporary]',
               '5xx-json-[permanent,temporary]', '5xx-labelled-json-invalid-body', '5xx-labelled-json-invalid-body-prevalidator-text',
               '4xx-json-temporary', '4xx-prevalidator-text', '401-json-temporary', '404-prevalidator-text']
TRANSIENT = {T_JSON, T_TEXT, PERM_THEN_TEMP, BADJSON_T}
JSON_CLASSES = (OK, C4XX, T_JSON, P_JSON, PROTO_T, TEMP_THEN_PROTO, PROTO_THEN_TEMP, PERM_THEN_TEMP, C4XX_T_JSON, C401_T_JSON)
# client errors (4xx) whose body looks exactly like a transient server error: never sent again (only 5xx responses are)
LOOKALIKE_4XX = (C4XX_T_JSON, C4XX_T_TEXT)
MAXLEN = 7


import json as _REAL_JSON


class _Resp:
    def __init__(self, cls, status, seq):
        self.status_code = status
        self.seq = seq
        self.cls = cls
        if cls in JSON_CLASSES or cls in (BADJSON, BADJSON_T):
            self.headers = {'content-type': 'application/json'}
        else:
            self.headers = {'content-type': 'text/plain'}
        if cls == OK:
            self._json = {'seq': seq}
        elif cls == C4XX:
            self._json = [{'id': 'node.bad_request', 'kind': 'permanent', 'seq': seq}]
        elif cls in (T_JSON, C4XX_T_JSON, C401_T_JSON):
            self._json = [{'id': 'node.prevalidation.busy', 'kind': 'temporary', 'seq': seq}]
        elif cls == P_JSON:
            self._json = [{'id': 'node.state.broken', 'kind': 'permanent', 'seq': seq}]
        elif cls == PROTO_T:
            self._json = [{'id': 'proto.alpha.michelson_v1.runtime_error', 'kind': 'temporary', 'seq': seq}]
        elif cls == TEMP_THEN_PROTO:
            self._json = [{'id': 'node.prevalidation.busy', 'kind': 'temporary', 'seq': -1},
                          {'id': 'proto.alpha.contract.balance_too_low', 'kind': 'permanent', 'seq': seq}]
        elif cls == PROTO_THEN_TEMP:
            self._json = [{'id': 'proto.alpha.gas_exhausted.operation', 'kind': 'temporary', 'seq': -1},
                          {'id': 'node.prevalidation.busy', 'kind': 'temporary', 'seq': seq}]
        elif cls == PERM_THEN_TEMP:
            self._json = [{'id': 'node.state.broken', 'kind': 'permanent', 'seq': -1},
                          {'id': 'node.prevalidation.busy', 'kind': 'temporary', 'seq': seq}]
        else:
            self._json = None
        if cls in (T_TEXT, BADJSON_T, C4XX_T_TEXT, C404_T_TEXT):
            self.text = f'Assert_failure src/lib_shell/prevalidator.ml:1918 seq={seq}'
        elif self._json is not None:
            self.text = _REAL_JSON.dumps(self._json)      # the body the JSON was parsed from
        elif cls == BADJSON:
            self.text = f'[{{"id": "node.truncated", "kind": "perm seq={seq}'
        else:
            self.text = f'bad gateway seq={seq}'

    def json(self):
        if self._json is None:
            from simplejson import JSONDecodeError     # what requests raises in this environment

            raise JSONDecodeError('Expecting value', self.text, 0)
        return self._json


MULTI = 0     # number of nodes of the client under test (0: a plain RpcNode); set from the obligation's parameters


def in_class(cls, s):
    if cls == OK:
        return s == 200
    if cls in (C401, C401_T_JSON):
        return s == 401
    if cls in (C404, C404_T_TEXT):
        return s == 404
    if cls in (C4XX,) + LOOKALIKE_4XX:
        return 400 <= s <= 499 and s != 401 and s != 404
    return 500 <= s <= 599


def drive(classes, statuses):
    """Runs the real RpcNode.request against the scripted responses; returns the observation."""
    from pytezos.rpc import node as N

    sent = []
    delays = []

    def fake_request(method, url, **kw):
        i = len(sent)
        if i >= len(classes):
            raise RuntimeError('more requests than scripted responses')
        r = _Resp(classes[i], statuses[i], i)
        sent.append(r)
        return r

    from vf.stubs import const_stub, json_log_stub, patched
    with patched((N.requests, 'request', fake_request), (N, 'sleep', delays.append),
                 (N, 'json', json_log_stub(N.json)), (N, 'pformat', const_stub('<pformat>'))):
        try:
            client = N.RpcMultiNode(['http://n0', 'http://n1', 'http://n2'][:MULTI]) if MULTI else N.RpcNode('http://n')
            res = client.request('GET', 'x')
            outcome = ('ok', res.seq)
        except N.RpcError as e:
            a = e.args[0] if e.args else None
            if isinstance(a, dict):
                outcome = ('err', a.get('seq'))
            else:
                a = str(a)
                if a.startswith('Unauthorized'):
                    outcome = ('401', None)
                elif a.startswith('Not found'):
                    outcome = ('404', None)
                else:
                    outcome = ('err', int(a.rsplit('seq=', 1)[1].split()[0].rstrip('"}]')) if 'seq=' in a else -1)
        except Exception as e:  # noqa: anything else escaping request() is not what the property allows
            outcome = ('exception', type(e).__name__)
    return len(sent), delays, outcome


def expected(classes):
    n = 0
    delays = []
    d = 0.25
    for i in range(6):
        n += 1
        if classes[i] in TRANSIENT and i < 5:
            delays.append(d)
            d = min(d * 2, 2.0)
            continue
        break
    last = classes[n - 1]
    if last == OK:
        out = ('ok', n - 1)
    elif last in (C401, C401_T_JSON):
        out = ('401', None)
    elif last in (C404, C404_T_TEXT):
        out = ('404', None)
    else:
        out = ('err', n - 1)
    return n, delays, out


def check(classes, statuses):
    n, delays, out = drive(classes, statuses)
    en, edelays, eout = expected(classes)
    ok = n == en and out == eout and len(delays) == len(edelays)
    if ok:
        for a, b in zip(delays, edelays):
            ok = ok and a == b
    # property clauses stated independently of the model above
    ok = ok and n <= 6
    prev = 0.0
    for dl in delays:
        ok = ok and prev <= dl <= 2.0
        prev = dl
    return ok, (n, delays, out), (en, edelays, eout)


def pick(c):
    """Fork once on the class selector so that everything downstream sees a concrete class."""
    for k in range(NCLS):
        if c == k:
            return k
    assume(False)


def _classes(P, cs):
    prefix = list(P['prefix'])
    return (prefix + list(cs)[len(prefix):])[:MAXLEN]


def sym(P, c0: int, c1: int, c2: int, c3: int, c4: int, c5: int, c6: int,
        s0: int, s1: int, s2: int, s3: int, s4: int, s5: int, s6: int) -> bool:
    classes = _classes(P, [c0, c1, c2, c3, c4, c5, c6])
    statuses = [s0, s1, s2, s3, s4, s5, s6]
    # the responses after the first non-transient one are never consumed: pin them to keep the path tree small
    live = True
    for i in range(MAXLEN):
        if live:
            if not isinstance(classes[i], int) or i >= len(P['prefix']):
                classes[i] = pick(classes[i])
            assume(in_class(classes[i], statuses[i]))
            if not (classes[i] in TRANSIENT and i < 5):
                live = False
        else:
            classes[i], statuses[i] = OK, 200   # never consumed by the code under test
    ok, _, _ = check(classes, statuses)
    return ok


def sym_bvx(P, ex):
    """The same obligation on the proxy executor (the statuses are mathematical-integer terms, the classes solver-chosen)."""
    from harness import mbv

    global MULTI
    MULTI = P.get('multi', 0)
    prefix = list(P['prefix'])
    classes, statuses = [], []
    live = True
    for i in range(MAXLEN):
        if live:
            c = prefix[i] if i < len(prefix) else mbv._choose(ex, f'c{i}', 0, NCLS - 1)
            if i < len(prefix):
                ex.assume(ex.bv(f'c{i}') == c)      # recorded for the replay
            s_ = ex.int(f's{i}')
            if c == OK:
                ex.assume(s_ == 200)
            elif c in (C401, C401_T_JSON):
                ex.assume(s_ == 401)
            elif c in (C404, C404_T_TEXT):
                ex.assume(s_ == 404)
            elif c in (C4XX,) + LOOKALIKE_4XX:
                ex.assume((s_ >= 400) & (s_ <= 499) & (s_ != 401) & (s_ != 404))
            else:
                ex.assume((s_ >= 500) & (s_ <= 599))
            classes.append(c)
            statuses.append(s_)
            if not (c in TRANSIENT and i < 5):
                live = False
        else:
            classes.append(OK)
            statuses.append(200)
            ex.assume(ex.bv(f'c{i}') == OK)
            ex.assume(ex.int(f's{i}') == 200)
    ok, obs, exp = check(classes, statuses)
    ex.check(bool(ok), f'requests, delays and outcome follow the retry rule (observed {obs}, expected {exp})')


def concrete(P, w):
    global MULTI
    MULTI = P.get('multi', 0)
    classes = [int(c) for c in _classes(P, [w[f'c{i}'] for i in range(MAXLEN)])]
    statuses = [int(w[f's{i}']) for i in range(MAXLEN)]
    live = True
    for i in range(MAXLEN):
        if not live:
            classes[i], statuses[i] = OK, 200
        elif not (0 <= classes[i] < NCLS and in_class(classes[i], statuses[i])):
            return {'ok': True, 'note': 'witness outside the precondition'}
        elif not (classes[i] in TRANSIENT and i < 5):
            live = False
    ok, obs, exp = check(classes, statuses)
    return {'ok': ok, 'observed': obs, 'expected': exp, 'classes': [CLASS_NAMES[c] for c in classes]}


def obligations(tier):
    obs = []
    nt = [c for c in range(NCLS) if c not in TRANSIENT]
    tr = sorted(TRANSIENT)
    prefixes = [[c] for c in nt]
    prefixes += [[a, b] for a in tr for b in nt]
    prefixes += [[a, b, c] for a in tr for b in tr for c in range(NCLS)]
    for p in prefixes:
        obs.append(Ob(name='retry/first=' + '+'.join(CLASS_NAMES[c] for c in p), engine='bvx', sym=sym_bvx, concrete=concrete,
                      P={'prefix': p}, timeout=300 if tier == 'quick' else 900,
                      bounds='first responses fixed to the named classes, the remaining (up to 7 in total) symbolic over 18 classes; '
                             'status codes symbolic inside each class',
                      targets=TARGETS, stubs=STUBS))
    # the same rule through a multi-node client: one client request must not be sent again to another node of the pool either
    for m in (2, 3):
        for p in [[c] for c in nt] + [[a, b] for a in tr for b in nt]:
            obs.append(Ob(name=f'retry/multi-node={m}/first=' + '+'.join(CLASS_NAMES[c] for c in p), engine='bvx', sym=sym_bvx, concrete=concrete,
                          P={'prefix': p, 'multi': m}, timeout=300 if tier == 'quick' else 900,
                          bounds=f'one request through RpcMultiNode with {m} nodes; first responses fixed to the named classes, the rest symbolic',
                          targets=TARGETS + ['pytezos.rpc.node.RpcMultiNode.request'], stubs=STUBS))
    return obs
