"""Pinned copy of the protocol primitive table (Michelson_v1_primitives order, through Seoul: 159 entries).

Provenance: taken from the pinned commit of pytezos and compared by hand with the Octez primitive order;
the repository's recorded mainnet scripts (hash-covered forging vectors) validate the common entries.
The C05 `tables` obligation compares pytezos' live table with this list on every run.
"""
PRIMS = [
    'parameter', 'storage', 'code', 'False', 'Elt', 'Left',
    'None', 'Pair', 'Right', 'Some', 'True', 'Unit',
    'PACK', 'UNPACK', 'BLAKE2B', 'SHA256', 'SHA512', 'ABS',
    'ADD', 'AMOUNT', 'AND', 'BALANCE', 'CAR', 'CDR',
    'CHECK_SIGNATURE', 'COMPARE', 'CONCAT', 'CONS', '__CREATE_ACCOUNT__', 'CREATE_CONTRACT',
    'IMPLICIT_ACCOUNT', 'DIP', 'DROP', 'DUP', 'EDIV', 'EMPTY_MAP',
    'EMPTY_SET', 'EQ', 'EXEC', 'FAILWITH', 'GE', 'GET',
    'GT', 'HASH_KEY', 'IF', 'IF_CONS', 'IF_LEFT', 'IF_NONE',
    'INT', 'LAMBDA', 'LE', 'LEFT', 'LOOP', 'LSL',
    'LSR', 'LT', 'MAP', 'MEM', 'MUL', 'NEG',
    'NEQ', 'NIL', 'NONE', 'NOT', 'NOW', 'OR',
    'PAIR', 'PUSH', 'RIGHT', 'SIZE', 'SOME', 'SOURCE',
    'SENDER', 'SELF', 'STEPS_TO_QUOTA', 'SUB', 'SWAP', 'TRANSFER_TOKENS',
    'SET_DELEGATE', 'UNIT', 'UPDATE', 'XOR', 'ITER', 'LOOP_LEFT',
    'ADDRESS', 'CONTRACT', 'ISNAT', 'CAST', 'RENAME', 'bool',
    'contract', 'int', 'key', 'key_hash', 'lambda', 'list',
    'map', 'big_map', 'nat', 'option', 'or', 'pair',
    'set', 'signature', 'string', 'bytes', 'mutez', 'timestamp',
    'unit', 'operation', 'address', 'SLICE', 'DIG', 'DUG',
    'EMPTY_BIG_MAP', 'APPLY', 'chain_id', 'CHAIN_ID', 'LEVEL', 'SELF_ADDRESS',
    'never', 'NEVER', 'UNPAIR', 'VOTING_POWER', 'TOTAL_VOTING_POWER', 'KECCAK',
    'SHA3', 'PAIRING_CHECK', 'bls12_381_g1', 'bls12_381_g2', 'bls12_381_fr', 'sapling_state',
    'sapling_transaction_deprecated', 'SAPLING_EMPTY_STATE', 'SAPLING_VERIFY_UPDATE', 'ticket', 'TICKET_DEPRECATED', 'READ_TICKET',
    'SPLIT_TICKET', 'JOIN_TICKETS', 'GET_AND_UPDATE', 'chest', 'chest_key', 'OPEN_CHEST',
    'VIEW', 'view', 'constant', 'SUB_MUTEZ', 'tx_rollup_l2_address', 'MIN_BLOCK_TIME',
    'sapling_transaction', 'EMIT', 'Lambda_rec', 'LAMBDA_REC', 'TICKET', 'BYTES',
    'NAT', 'Ticket', 'IS_IMPLICIT_ACCOUNT',
]
assert len(PRIMS) == 159
