"""Engine B (`bvx`): proxy execution of the real pytezos code objects on z3 terms.

The real function bodies run under CPython; the values flowing through them are proxies wrapping
z3 bit-vectors (SymInt, width W, two's complement = Python's arbitrary-precision semantics as long
as nothing overflows, which is a checked side obligation) or z3 mathematical integers (IntZ).
Branching on a proxy asks the path explorer, which enumerates all feasible decision sequences
depth-first with push/pop.  `unknown` from the solver is inconclusive, never success.
"""
from __future__ import annotations

import ast
import builtins
import time
import types
from typing import Any, Callable, Dict, List, Optional

import z3

from vf.core import Ob, Skip


class Abort(BaseException):
    """Current path is infeasible / outside the precondition."""


class Found(BaseException):
    """A counterexample was found (carried in ex.cex)."""


class Inconclusive(BaseException):
    pass


class Explorer:
    def __init__(self, W: int = 64, timeout: float = 60.0):
        self.W = W
        self.solver = z3.Solver()
        self.stack: List[list] = []   # [decision, exhausted, tag]
        self.pos = 0
        self.queries = 0
        self.paths = 0
        self.reached = 0
        self.solver_s = 0.0
        self.symbols: Dict[str, Any] = {}
        self.sym_kinds: Dict[str, Any] = {}
        self.cex: Optional[dict] = None
        self.deadline = time.time() + timeout
        self.side: List[Any] = []      # no-overflow side conditions of the current path
        self.width_violation: Optional[str] = None
        self.fresh = 0

    # ---- solver plumbing -------------------------------------------------------------------
    def _check(self, *extra) -> Any:
        if time.time() > self.deadline:
            raise Inconclusive('time budget exhausted')
        self.queries += 1
        t0 = time.perf_counter()
        if extra:
            self.solver.push()
            self.solver.add(*extra)
        r = self.solver.check()
        m = None
        if r == z3.sat and extra is not None:
            m = self.solver.model()
        if extra:
            self.solver.pop()
        self.solver_s += time.perf_counter() - t0
        if r == z3.unknown:
            raise Inconclusive('solver returned unknown')
        return r == z3.sat, m

    def feasible(self, c) -> bool:
        return self._check(c)[0]

    def begin(self):
        self.pos = 0
        self.side = []
        self.symbols = {}
        self.sym_kinds = {}
        self.fresh = 0
        self.solver.push()

    def end(self):
        self.solver.pop()

    def branch(self, cond, tag=None) -> bool:
        cond = z3.simplify(cond)
        if z3.is_true(cond):
            return True
        if z3.is_false(cond):
            return False
        if self.pos < len(self.stack):
            d = self.stack[self.pos][0]
        else:
            t = self.feasible(cond)
            f = self.feasible(z3.Not(cond))
            if t and f:
                self.stack.append([True, False, tag])
                d = True
            elif t:
                self.stack.append([True, True, tag])
                d = True
            elif f:
                self.stack.append([False, True, tag])
                d = False
            else:
                raise Abort()
        self.pos += 1
        self.solver.add(cond if d else z3.Not(cond))
        return d

    def next_path(self) -> bool:
        while self.stack and self.stack[-1][1]:
            self.stack.pop()
        if not self.stack:
            return False
        self.stack[-1] = [not self.stack[-1][0], True, self.stack[-1][2]]
        return True

    def realize(self, e) -> int:
        """Fork on the concrete value of a term (enumerates the feasible values)."""
        e = z3.simplify(e)
        if z3.is_bv_value(e):
            return e.as_signed_long()
        if z3.is_int_value(e):
            return e.as_long()
        while True:
            if self.pos < len(self.stack):
                val = self.stack[self.pos][2]
            else:
                ok, m = self._check(z3.BoolVal(True))
                if not ok:
                    raise Abort()
                val = m.eval(e, model_completion=True)
            if self.branch(e == val, tag=val):
                return val.as_signed_long() if z3.is_bv_value(val) else val.as_long()

    # ---- harness API -----------------------------------------------------------------------
    def bv(self, name: str, signed=True) -> 'SymInt':
        v = z3.BitVec(name, self.W)
        self.symbols[name] = v
        self.sym_kinds[name] = 'int'
        return SymInt(v)

    def int(self, name: str) -> 'IntZ':
        v = z3.Int(name)
        self.symbols[name] = v
        self.sym_kinds[name] = 'int'
        return IntZ(v)

    def bool(self, name: str) -> 'SymBool':
        v = z3.Bool(name)
        self.symbols[name] = v
        self.sym_kinds[name] = 'bool'
        return SymBool(v)

    def byte(self, name: str) -> 'SymInt':
        v = z3.BitVec(name, 8)
        self.symbols[name] = v
        self.sym_kinds[name] = 'int'
        return SymInt(z3.ZeroExt(self.W - 8, v))

    def bytes(self, name: str, n: int) -> 'SymBytes':
        items = []
        for i in range(n):
            v = z3.BitVec(f'{name}[{i}]', 8)
            items.append(SymInt(z3.ZeroExt(self.W - 8, v)))
        self.symbols[name] = [z3.BitVec(f'{name}[{i}]', 8) for i in range(n)]
        self.sym_kinds[name] = 'bytes'
        return SymBytes(items)

    def assume(self, cond):
        if isinstance(cond, SymBool):
            c = z3.simplify(cond.e)
            if z3.is_false(c):
                raise Abort()
            self.solver.add(c)
            if not z3.is_true(c) and not self.feasible(z3.BoolVal(True)):
                raise Abort()
        elif not cond:
            raise Abort()

    def model_witness(self, m) -> dict:
        w = {}
        for name, v in self.symbols.items():
            if isinstance(v, list):
                w[name] = bytes(m.eval(b, model_completion=True).as_long() for b in v)
            elif z3.is_bool(v):
                w[name] = bool(z3.is_true(m.eval(v, model_completion=True)))
            elif z3.is_bv(v):
                w[name] = m.eval(v, model_completion=True).as_signed_long()
            else:
                w[name] = m.eval(v, model_completion=True).as_long()
        return w

    def check(self, cond, label: str = 'property'):
        """The assertion: if `not cond` is feasible on this path, stop with a counterexample."""
        self.reached += 1
        if isinstance(cond, SymBool):
            c = z3.simplify(cond.e)
            if z3.is_true(c):
                return
            ok, m = self._check(z3.Not(c))
            if ok:
                self.cex = {'witness': self.model_witness(m), 'message': f'{label} false'}
                raise Found()
            self.solver.add(c)
        elif not cond:
            ok, m = self._check(z3.BoolVal(True))
            if not ok:
                raise Abort()
            self.cex = {'witness': self.model_witness(m), 'message': f'{label} false'}
            raise Found()

    def fail_here(self, label: str):
        ok, m = self._check(z3.BoolVal(True))
        if not ok:
            raise Abort()
        self.cex = {'witness': self.model_witness(m), 'message': label}
        raise Found()

    def no_overflow(self, cond, what: str):
        self.side.append((cond, what))

    def finish_path(self):
        """Width adequacy: none of the arithmetic on this path may overflow the chosen width."""
        if not self.side:
            return
        bad = z3.Or([z3.Not(c) for c, _ in self.side])
        ok, m = self._check(bad)
        if ok:
            for c, what in self.side:
                if z3.is_false(m.eval(c, model_completion=True)):
                    self.width_violation = what
                    break
            else:
                self.width_violation = 'overflow'


EX: Optional[Explorer] = None


def W() -> int:
    return EX.W


# ---------------------------------------------------------------------------------------------
# proxies
# ---------------------------------------------------------------------------------------------
class SymBool:
    __slots__ = ('e',)

    def __init__(self, e):
        self.e = e

    def __bool__(self):
        return EX.branch(self.e)

    def __invert__(self):
        return SymBool(z3.Not(self.e))

    def __and__(self, o):
        return SymBool(z3.And(self.e, _b(o)))

    __rand__ = __and__

    def __or__(self, o):
        return SymBool(z3.Or(self.e, _b(o)))

    __ror__ = __or__

    def __eq__(self, o):
        return SymBool(self.e == _b(o))

    def __ne__(self, o):
        return SymBool(self.e != _b(o))

    def __xor__(self, o):
        return SymBool(z3.Xor(self.e, _b(o)))

    # bool ordering: False < True
    def __lt__(self, o):
        return SymBool(z3.And(z3.Not(self.e), _b(o)))

    def __gt__(self, o):
        return SymBool(z3.And(self.e, z3.Not(_b(o))))

    def __le__(self, o):
        return SymBool(z3.Or(z3.Not(self.e), _b(o)))

    def __ge__(self, o):
        return SymBool(z3.Or(self.e, z3.Not(_b(o))))

    __rxor__ = __xor__

    def __int__(self):
        return SymInt(z3.If(self.e, z3.BitVecVal(1, EX.W), z3.BitVecVal(0, EX.W)))

    __hash__ = None  # type: ignore


def _b(x):
    if isinstance(x, SymBool):
        return x.e
    if isinstance(x, builtins.bool):
        return z3.BoolVal(x)
    if isinstance(x, (SymInt, IntZ)):
        return x.e != 0
    raise TypeError(type(x))


def sym_not(x):
    if isinstance(x, SymBool):
        return SymBool(z3.Not(x.e))
    return not x


def sym_and(*xs):
    if any(isinstance(x, SymBool) for x in xs):
        return SymBool(z3.And([_b(x) for x in xs]))
    return all(xs)


def sym_or(*xs):
    if any(isinstance(x, SymBool) for x in xs):
        return SymBool(z3.Or([_b(x) for x in xs]))
    return any(xs)


def sym_implies(a, b):
    return sym_or(sym_not(a), b)


def bv(x):
    if isinstance(x, SymInt):
        return x.e
    if isinstance(x, builtins.bool):
        x = builtins.int(x)
    if isinstance(x, builtins.int):
        if not (-(1 << (EX.W - 1)) <= x < (1 << (EX.W - 1))):
            EX.width_violation = f'constant {x} does not fit {EX.W} bits'
            raise Inconclusive(EX.width_violation)
        return z3.BitVecVal(x, EX.W)
    if isinstance(x, SymBool):
        return z3.If(x.e, z3.BitVecVal(1, EX.W), z3.BitVecVal(0, EX.W))
    raise TypeError(f'bv({type(x).__name__})')


def _is_num(o):
    return isinstance(o, (SymInt, builtins.int, SymBool))


class SymInt:
    """W-bit two's complement integer standing for a Python int."""

    __slots__ = ('e',)

    def __init__(self, e):
        self.e = e

    # bit operations
    def __and__(s, o):
        if not _is_num(o):
            return NotImplemented
        return SymInt(s.e & bv(o))

    __rand__ = __and__

    def __or__(s, o):
        if not _is_num(o):
            return NotImplemented
        return SymInt(s.e | bv(o))

    __ror__ = __or__

    def __xor__(s, o):
        if not _is_num(o):
            return NotImplemented
        return SymInt(s.e ^ bv(o))

    __rxor__ = __xor__

    def __invert__(s):
        return SymInt(~s.e)

    def __rshift__(s, o):
        if isinstance(o, SymInt):
            n = bv(o)
            EX.no_overflow(z3.And(n >= 0, n < EX.W), 'shift amount')
            return SymInt(s.e >> n)
        if o < 0:
            raise ValueError('negative shift count')
        if o >= EX.W:
            return SymInt(z3.If(s.e < 0, z3.BitVecVal(-1, EX.W), z3.BitVecVal(0, EX.W)))
        return SymInt(s.e >> bv(o))

    def __rrshift__(s, o):
        return SymInt(bv(o)).__rshift__(s)

    def __lshift__(s, o):
        n = bv(o)
        if isinstance(o, builtins.int):
            if o < 0:
                raise ValueError('negative shift count')
            if o >= EX.W:
                EX.no_overflow(s.e == 0, f'<< {o}')
                return SymInt(z3.BitVecVal(0, EX.W))
        else:
            EX.no_overflow(z3.And(n >= 0, n < EX.W), 'shift amount')
        r = s.e << n
        EX.no_overflow((r >> n) == s.e, '<<')
        return SymInt(r)

    def __rlshift__(s, o):
        return SymInt(bv(o)).__lshift__(s)

    # arithmetic
    def __add__(s, o):
        if not _is_num(o):
            return NotImplemented
        b = bv(o)
        EX.no_overflow(z3.And(z3.BVAddNoOverflow(s.e, b, True), z3.BVAddNoUnderflow(s.e, b)), '+')
        return SymInt(s.e + b)

    __radd__ = __add__

    def __sub__(s, o):
        if not _is_num(o):
            return NotImplemented
        b = bv(o)
        EX.no_overflow(z3.And(z3.BVSubNoOverflow(s.e, b), z3.BVSubNoUnderflow(s.e, b, True)), '-')
        return SymInt(s.e - b)

    def __rsub__(s, o):
        return SymInt(bv(o)).__sub__(s)

    def __mul__(s, o):
        if not _is_num(o):
            return NotImplemented
        b = bv(o)
        EX.no_overflow(z3.And(z3.BVMulNoOverflow(s.e, b, True), z3.BVMulNoUnderflow(s.e, b)), '*')
        return SymInt(s.e * b)

    __rmul__ = __mul__

    def __neg__(s):
        EX.no_overflow(s.e != z3.BitVecVal(1 << (EX.W - 1), EX.W), 'neg')
        return SymInt(-s.e)

    def __pos__(s):
        return s

    def __abs__(s):
        EX.no_overflow(s.e != z3.BitVecVal(1 << (EX.W - 1), EX.W), 'abs')
        return SymInt(z3.If(s.e < 0, -s.e, s.e))

    def _divmod(s, o):
        b = bv(o)
        if isinstance(o, SymInt):
            if EX.branch(b == 0):
                raise ZeroDivisionError('integer division or modulo by zero')
        elif o == 0:
            raise ZeroDivisionError('integer division or modulo by zero')
        # floor division from truncating signed division
        q = s.e / b          # z3 bv '/' is signed (truncating)
        r = z3.SRem(s.e, b)
        adj = z3.And(r != 0, (r < 0) != (b < 0))
        qf = z3.If(adj, q - 1, q)
        rf = z3.If(adj, r + b, r)
        return SymInt(qf), SymInt(rf)

    def __floordiv__(s, o):
        return s._divmod(o)[0]

    def __rfloordiv__(s, o):
        return SymInt(bv(o))._divmod(s)[0]

    def __mod__(s, o):
        return s._divmod(o)[1]

    def __rmod__(s, o):
        return SymInt(bv(o))._divmod(s)[1]

    def __divmod__(s, o):
        return s._divmod(o)

    def __rdivmod__(s, o):
        return SymInt(bv(o))._divmod(s)

    # comparisons (signed)
    def __eq__(s, o):
        if not _is_num(o):
            return False
        return SymBool(s.e == bv(o))

    def __ne__(s, o):
        if not _is_num(o):
            return True
        return SymBool(s.e != bv(o))

    def __lt__(s, o):
        return SymBool(s.e < bv(o))

    def __le__(s, o):
        return SymBool(s.e <= bv(o))

    def __gt__(s, o):
        return SymBool(s.e > bv(o))

    def __ge__(s, o):
        return SymBool(s.e >= bv(o))

    def __bool__(s):
        return EX.branch(s.e != 0)

    def __index__(s):
        return EX.realize(s.e)

    def __int__(s):
        return s

    __hash__ = None  # type: ignore

    def bit_length(s):
        a = z3.If(s.e < 0, -s.e, s.e)
        r = z3.BitVecVal(0, EX.W)
        for k in range(EX.W - 1, 0, -1):
            # highest set bit k-1  -> bit_length k
            pass
        res = z3.BitVecVal(0, EX.W)
        for k in range(1, EX.W):
            res = z3.If(z3.UGE(a, z3.BitVecVal(1 << (k - 1), EX.W)), z3.BitVecVal(k, EX.W), res)
        EX.no_overflow(s.e != z3.BitVecVal(1 << (EX.W - 1), EX.W), 'bit_length')
        return SymInt(res)

    def to_bytes(s, length, byteorder='big', signed=False):
        if byteorder != 'big':
            raise NotImplementedError('little endian')
        if isinstance(length, SymInt):
            length = EX.realize(length.e)
        if length < 0:
            raise ValueError('length argument must be non-negative')
        nbits = 8 * length
        if not signed:
            if EX.branch(s.e < 0):
                raise OverflowError("can't convert negative int to unsigned")
            fits = z3.BoolVal(True) if nbits >= EX.W - 1 else z3.ULT(s.e, z3.BitVecVal(1 << nbits, EX.W))
        else:
            if nbits >= EX.W:
                fits = z3.BoolVal(True)
            elif nbits == 0:
                fits = z3.Or(s.e == 0, s.e == -1)   # CPython quirk: (-1).to_bytes(0, signed=True) == b''
            else:
                lo, hi = -(1 << (nbits - 1)), (1 << (nbits - 1)) - 1
                fits = z3.And(s.e >= lo, s.e <= hi)
        if not EX.branch(fits):
            raise OverflowError('int too big to convert')
        out = []
        for i in range(length):
            sh = 8 * (length - 1 - i)
            if sh >= EX.W:
                byte = z3.If(s.e < 0, z3.BitVecVal(0xFF, EX.W), z3.BitVecVal(0, EX.W))
            else:
                byte = (s.e >> sh) & 0xFF
            out.append(SymInt(z3.simplify(byte)))
        return SymBytes(out)


def _lift(x):
    return x if isinstance(x, SymInt) else SymInt(bv(x))


class IntZ:
    """Mathematical integer (z3 Int)."""

    __slots__ = ('e',)

    def __init__(self, e):
        self.e = e

    @staticmethod
    def _z(o):
        if isinstance(o, IntZ):
            return o.e
        if isinstance(o, builtins.bool):
            return z3.IntVal(builtins.int(o))
        if isinstance(o, builtins.int):
            return z3.IntVal(o)
        if isinstance(o, SymBool):
            return z3.If(o.e, z3.IntVal(1), z3.IntVal(0))
        if isinstance(o, builtins.float) and o == builtins.int(o):
            return z3.IntVal(builtins.int(o))
        raise TypeError(f'IntZ op with {type(o).__name__}')

    def __add__(s, o):
        if isinstance(o, Ratio):
            return o.__radd__(s)
        return IntZ(s.e + s._z(o))

    __radd__ = __add__

    def __sub__(s, o):
        if isinstance(o, Ratio):
            return Ratio(s.e, 1) - o
        return IntZ(s.e - s._z(o))

    def __rsub__(s, o):
        return IntZ(s._z(o) - s.e)

    def __mul__(s, o):
        if isinstance(o, Ratio):
            return o.__rmul__(s)
        if isinstance(o, builtins.float) and o != builtins.int(o):
            import fractions

            f = fractions.Fraction(o).limit_denominator(10**9)
            return Ratio(s.e * f.numerator, f.denominator)
        return IntZ(s.e * s._z(o))

    __rmul__ = __mul__

    def __neg__(s):
        return IntZ(-s.e)

    def __abs__(s):
        return IntZ(z3.If(s.e < 0, -s.e, s.e))

    def _pydivmod(s, o):
        """Python floor divmod expressed with z3's Euclidean div/mod (a = b*(a div b) + (a mod b), 0 <= a mod b < |b|)."""
        d = s._z(o)
        if isinstance(o, (IntZ, SymBool)):
            if EX.branch(d == 0):
                raise ZeroDivisionError('integer division or modulo by zero')
        elif o == 0:
            raise ZeroDivisionError('integer division or modulo by zero')
        q, m = s.e / d, s.e % d
        if isinstance(o, builtins.int) and o > 0:
            return IntZ(q), IntZ(m)
        adj = z3.And(d < 0, m != 0)
        return IntZ(z3.If(adj, q - 1, q)), IntZ(z3.If(adj, m + d, m))

    def __floordiv__(s, o):
        return s._pydivmod(o)[0]

    def __mod__(s, o):
        return s._pydivmod(o)[1]

    def __divmod__(s, o):
        return s._pydivmod(o)

    def __rdivmod__(s, o):
        return IntZ(s._z(o))._pydivmod(s)

    def __rfloordiv__(s, o):
        return IntZ(s._z(o))._pydivmod(s)[0]

    def __rmod__(s, o):
        return IntZ(s._z(o))._pydivmod(s)[1]

    def __truediv__(s, o):
        if isinstance(o, builtins.int) and o > 0:
            return Ratio(s.e, o)
        raise NotImplementedError('division by a non-constant')

    def __eq__(s, o):
        if not isinstance(o, (IntZ, builtins.int, SymBool)):
            return False
        return SymBool(s.e == s._z(o))

    def __ne__(s, o):
        if not isinstance(o, (IntZ, builtins.int, SymBool)):
            return True
        return SymBool(s.e != s._z(o))

    def __lt__(s, o):
        return SymBool(s.e < s._z(o))

    def __le__(s, o):
        return SymBool(s.e <= s._z(o))

    def __gt__(s, o):
        return SymBool(s.e > s._z(o))

    def __ge__(s, o):
        return SymBool(s.e >= s._z(o))

    def __bool__(s):
        return EX.branch(s.e != 0)

    def __index__(s):
        return EX.realize(s.e)

    def __int__(s):
        return s

    def bit_length(s):
        return BitLen(s)

    __hash__ = None  # type: ignore


class BitLen:
    """bit_length() of a mathematical integer; only comparisons with constants are supported:
    bit_length(x) > k  <=>  |x| >= 2^k."""

    def __init__(self, x):
        self.x = x

    def _abs(self):
        return z3.If(self.x.e < 0, -self.x.e, self.x.e)

    def __gt__(self, k):
        return SymBool(self._abs() >= z3.IntVal(1 << k))

    def __ge__(self, k):
        return SymBool(self._abs() >= z3.IntVal(1 << (k - 1))) if k > 0 else True

    def __le__(self, k):
        return SymBool(self._abs() < z3.IntVal(1 << k))

    def __lt__(self, k):
        return SymBool(self._abs() < z3.IntVal(1 << (k - 1))) if k > 0 else False

    def __format__(self, spec):
        return '<bit_length>'

    def __str__(self):
        return '<bit_length>'


class Ratio:
    """Exact rational num/den (den a positive Python int) produced by `/`; int() floors it."""

    __slots__ = ('num', 'den')

    def __init__(self, num, den):
        self.num, self.den = num, den

    def __mul__(s, o):
        return Ratio(s.num * IntZ._z(o), s.den)

    __rmul__ = __mul__

    def __truediv__(s, o):
        if isinstance(o, builtins.int) and o > 0:
            return Ratio(s.num, s.den * o)
        raise NotImplementedError

    def __add__(s, o):
        if isinstance(o, Ratio):
            return Ratio(s.num * o.den + o.num * s.den, s.den * o.den)
        return Ratio(s.num + IntZ._z(o) * s.den, s.den)

    __radd__ = __add__

    def __sub__(s, o):
        if isinstance(o, Ratio):
            return Ratio(s.num * o.den - o.num * s.den, s.den * o.den)
        return Ratio(s.num - IntZ._z(o) * s.den, s.den)

    def __int__(s):
        # int() truncates toward zero
        q = s.num / s.den
        return IntZ(z3.If(z3.Or(s.num >= 0, s.num % s.den == 0), q, q + 1))

    def __floor__(s):
        return IntZ(s.num / s.den)

    def __ceil__(s):
        return IntZ(-((-s.num) / s.den))


def _norm_bytes(items):
    """All-concrete results collapse to real bytes (so that dict lookups, str methods etc. keep working)."""
    items = list(items)
    if all(isinstance(i, builtins.int) for i in items):
        return builtins.bytes(items)
    return SymBytes(items)


HASH_SHORT_BYTES = [False]      # harnesses whose code under test looks tag bytes up in dicts switch this on (C10 blind_unpack)


class SymBytes:
    """Concrete length; elements are Python ints or SymInt (0..255)."""

    def __init__(self, items=()):
        self.items = list(items)

    def __len__(self):
        return len(self.items)

    def __getitem__(self, i):
        if isinstance(i, slice):
            start, stop, step = i.start, i.stop, i.step
            if isinstance(start, SymInt):
                start = EX.realize(start.e)
            if isinstance(stop, SymInt):
                stop = EX.realize(stop.e)
            return _norm_bytes(self.items[slice(start, stop, step)])
        if isinstance(i, SymInt):
            i = EX.realize(i.e)
        return self.items[i]

    def __iter__(self):
        return iter(self.items)

    def __add__(self, o):
        if isinstance(o, SymBytes):
            return SymBytes(self.items + o.items)
        if isinstance(o, (builtins.bytes, builtins.bytearray)):
            return SymBytes(self.items + list(o))
        return NotImplemented

    def __radd__(self, o):
        if isinstance(o, (builtins.bytes, builtins.bytearray)):
            return SymBytes(list(o) + self.items)
        return NotImplemented

    def __mul__(self, n):
        return SymBytes(self.items * n)

    def _eq_expr(self, o):
        oi = list(o.items if isinstance(o, SymBytes) else o)
        if len(oi) != len(self.items):
            return z3.BoolVal(False)
        if not oi:
            return z3.BoolVal(True)
        return z3.And([bv(a) == bv(b) for a, b in zip(self.items, oi)])

    def __eq__(self, o):
        if not isinstance(o, (SymBytes, builtins.bytes, builtins.bytearray)):
            return False
        return SymBool(self._eq_expr(o))

    def __ne__(self, o):
        if not isinstance(o, (SymBytes, builtins.bytes, builtins.bytearray)):
            return True
        return SymBool(z3.Not(self._eq_expr(o)))

    def __lt__(self, o):
        return SymBool(_lex_lt(self.items, list(o.items if isinstance(o, SymBytes) else o)))

    def __gt__(self, o):
        return SymBool(_lex_lt(list(o.items if isinstance(o, SymBytes) else o), self.items))

    def __le__(self, o):
        return SymBool(z3.Not(_lex_lt(list(o.items if isinstance(o, SymBytes) else o), self.items)))

    def __ge__(self, o):
        return SymBool(z3.Not(_lex_lt(self.items, list(o.items if isinstance(o, SymBytes) else o))))

    def __bool__(self):
        return len(self.items) > 0

    def __hash__(self):
        # dict/set probes with a short symbolic key (tag bytes): the bytes are concretised by forking, so the lookup is exact on every path
        if len(self.items) > 2 or not HASH_SHORT_BYTES[0]:
            raise TypeError('unhashable symbolic bytes')
        vals = [it if isinstance(it, builtins.int) else EX.realize(bv(it)) for it in self.items]
        return hash(builtins.bytes(v & 0xFF for v in vals))

    def startswith(self, p):
        p = list(p.items if isinstance(p, SymBytes) else p)
        if len(p) > len(self.items):
            return False
        if not p:
            return True
        return builtins.bool(SymBool(z3.And([bv(a) == bv(b) for a, b in zip(self.items, p)])))

    def endswith(self, p):
        p = list(p.items if isinstance(p, SymBytes) else p)
        if len(p) > len(self.items):
            return False
        if not p:
            return True
        return builtins.bool(SymBool(z3.And([bv(a) == bv(b) for a, b in zip(self.items[len(self.items) - len(p):], p)])))

    def rjust(self, width, fill=b'\x00'):
        pad = max(0, width - len(self.items))
        return SymBytes(list(fill) * pad + list(self.items))

    def ljust(self, width, fill=b'\x00'):
        pad = max(0, width - len(self.items))
        return SymBytes(list(self.items) + list(fill) * pad)

    def lstrip(self, chars=None):
        if chars is None or list(chars) != [0]:
            raise NotImplementedError('lstrip other than b"\\x00"')
        i = 0
        while i < len(self.items) and builtins.bool(SymBool(bv(self.items[i]) == 0)):
            i += 1
        return SymBytes(self.items[i:])

    def replace(self, old, new, count=-1):
        """bytes.replace for a concrete pattern: non-overlapping occurrences, left to right (forks on every possible match)."""
        old = list(old.items if isinstance(old, SymBytes) else old)
        new = list(new.items if isinstance(new, SymBytes) else new)
        if not old:
            raise NotImplementedError('replace of the empty pattern')
        out, i, n = [], 0, len(self.items)
        while i < n:
            if count != 0 and i + len(old) <= n and builtins.bool(SymBool(z3.And([bv(a) == bv(b) for a, b in zip(self.items[i:i + len(old)], old)]))):
                out.extend(new)
                i += len(old)
                if count > 0:
                    count -= 1
            else:
                out.append(self.items[i])
                i += 1
        return SymBytes(out)

    def find(self, sub, start=0):
        sub = list(sub.items if isinstance(sub, SymBytes) else sub)
        for i in range(start, len(self.items) - len(sub) + 1):
            if not sub or builtins.bool(SymBool(z3.And([bv(a) == bv(b) for a, b in zip(self.items[i:i + len(sub)], sub)]))):
                return i
        return -1

    def __contains__(self, x):
        if isinstance(x, (builtins.int, SymInt)):
            return builtins.bool(SymBool(z3.Or([bv(a) == bv(x) for a in self.items]))) if self.items else False
        return self.find(x) >= 0

    def hex(self):
        if all(isinstance(i, builtins.int) for i in self.items):
            return builtins.bytes(self.items).hex()
        return SymHex(self)

    def decode(self, *a):
        if all(isinstance(i, builtins.int) for i in self.items):
            return builtins.bytes(self.items).decode(*a)
        # ASCII only: a byte >= 0x80 would make real utf-8 decoding data dependent
        for it in self.items:
            if isinstance(it, SymInt):
                if EX.branch(z3.UGE(it.e, z3.BitVecVal(0x80, EX.W))):
                    raise Abort()  # outside the claim: non-ASCII text
            elif it >= 0x80:
                raise Abort()
        return SymStr(self)

    def concrete(self, m=None) -> bytes:
        return builtins.bytes(builtins.int(x) for x in self.items)


def _lex_lt(a, b):
    """z3 expression: byte sequence a < byte sequence b (lexicographic, prefix is smaller)."""
    n = min(len(a), len(b))
    res = z3.BoolVal(len(a) < len(b))
    for i in range(n - 1, -1, -1):
        x, y = bv(a[i]), bv(b[i])
        res = z3.If(z3.ULT(x, y), z3.BoolVal(True), z3.If(z3.UGT(x, y), z3.BoolVal(False), res))
    return res


class SymByteArray(SymBytes):
    def __init__(self, items=()):
        if isinstance(items, SymInt):
            items = [0] * items.__index__()
        elif isinstance(items, builtins.int):
            items = [0] * items
        if isinstance(items, SymBytes):
            items = items.items
        super().__init__(items)

    def append(self, x):
        self.items.append(x)

    def extend(self, xs):
        self.items.extend(xs.items if isinstance(xs, SymBytes) else list(xs))

    def __setitem__(self, i, v):
        self.items[i] = v

    def __iadd__(self, o):
        self.extend(o)
        return self


class SymHex:
    """Opaque hex rendering of bytes."""

    def __init__(self, b):
        self.b = b

    def __eq__(self, o):
        if isinstance(o, SymHex):
            return self.b == o.b
        if isinstance(o, builtins.str):
            try:
                return self.b == builtins.bytes.fromhex(o)
            except ValueError:
                return False
        return False

    def __ne__(self, o):
        return sym_not(self.__eq__(o))

    def __len__(self):
        return 2 * len(self.b)

    def removeprefix(self, p):
        # a hex rendering consists of hex digits only: it never starts with '0x'
        return self

    def startswith(self, p):
        if isinstance(p, builtins.str) and p and any(ch not in '0123456789abcdef' for ch in p):
            return False
        raise NotImplementedError

    def lstrip(self, chars=None):
        if chars is not None and all(ch not in '0123456789abcdef' for ch in chars):
            return self
        raise Abort()  # stripping hex digits off an opaque rendering: outside the claim

    __hash__ = None  # type: ignore


class SymStr:
    """Opaque ASCII text backed by SymBytes."""

    def __init__(self, b):
        self.b = b

    def encode(self, *a):
        return self.b

    def __len__(self):
        return len(self.b)

    def __eq__(self, o):
        if isinstance(o, SymStr):
            return self.b == o.b
        if isinstance(o, builtins.str):
            return self.b == o.encode()
        return False

    def __ne__(self, o):
        return sym_not(self.__eq__(o))

    def __lt__(self, o):
        return self.b < (o.b if isinstance(o, SymStr) else o.encode())

    def __gt__(self, o):
        return self.b > (o.b if isinstance(o, SymStr) else o.encode())

    def __add__(self, o):
        if isinstance(o, SymStr):
            return SymStr(SymBytes(list(self.b.items) + list(o.b.items)))
        if isinstance(o, builtins.str):
            return SymStr(SymBytes(list(self.b.items) + list(o.encode())))
        return NotImplemented

    def __radd__(self, o):
        if isinstance(o, builtins.str):
            return SymStr(SymBytes(list(o.encode()) + list(self.b.items)))
        return NotImplemented

    def split(self, sep=None):
        if sep is None or len(sep) != 1:
            raise NotImplementedError
        c = ord(sep)
        parts, cur = [], []
        for it in self.b.items:
            if builtins.bool(SymBool(bv(it) == c)):
                parts.append(SymStr(SymBytes(cur)))
                cur = []
            else:
                cur.append(it)
        parts.append(SymStr(SymBytes(cur)))
        return parts

    def startswith(self, p):
        return self.b.startswith(p.encode() if isinstance(p, builtins.str) else p.b)

    def lower(self):
        return SymStr(SymBytes([(chr(it).lower().encode()[0] if isinstance(it, builtins.int) else
                                 SymInt(z3.If(z3.And(bv(it) >= 65, bv(it) <= 90), bv(it) + 32, bv(it)))) for it in self.b.items]))

    def upper(self):
        return SymStr(SymBytes([(chr(it).upper().encode()[0] if isinstance(it, builtins.int) else
                                 SymInt(z3.If(z3.And(bv(it) >= 97, bv(it) <= 122), bv(it) - 32, bv(it)))) for it in self.b.items]))

    def removeprefix(self, p):
        if len(p) <= len(self.b) and builtins.bool(self.startswith(p)):
            return SymStr(SymBytes(list(self.b.items[len(p):])))
        return self

    def lstrip(self, chars=None):
        if chars is None:
            raise NotImplementedError
        items = list(self.b.items)
        k = 0
        while k < len(items):
            it = items[k]
            if isinstance(it, builtins.int):
                hit = chr(it) in chars
            else:
                hit = builtins.bool(SymBool(z3.Or([bv(it) == ord(ch) for ch in chars])))
            if not hit:
                break
            k += 1
        return SymStr(SymBytes(items[k:]))

    def hex_decode(self):
        """bytes.fromhex on symbolic ASCII text (whitespace between digits: outside the claim)."""
        items = list(self.b.items)
        if len(items) % 2:
            raise ValueError('non-hexadecimal number found in fromhex() arg')
        nib = []
        for it in items:
            if isinstance(it, builtins.int):
                ch = chr(it)
                if ch in ' \t\n\r\x0b\x0c':
                    raise Abort()
                if ch not in '0123456789abcdefABCDEF':
                    raise ValueError('non-hexadecimal number found in fromhex() arg')
                nib.append(builtins.int(ch, 16))
                continue
            c = bv(it)
            ws = z3.Or(c == 32, z3.And(c >= 9, c <= 13))
            if builtins.bool(SymBool(ws)):
                raise Abort()
            valid = z3.Or(z3.And(c >= 48, c <= 57), z3.And(c >= 97, c <= 102), z3.And(c >= 65, c <= 70))
            if not builtins.bool(SymBool(valid)):
                raise ValueError('non-hexadecimal number found in fromhex() arg')
            nib.append(SymInt(z3.If(c <= 57, c - 48, z3.If(c >= 97, c - 87, c - 55))))
        out = []
        for k in range(0, len(nib), 2):
            hi, lo = nib[k], nib[k + 1]
            if isinstance(hi, builtins.int) and isinstance(lo, builtins.int):
                out.append(hi * 16 + lo)
            else:
                out.append(SymInt(z3.simplify(bv(hi) * 16 + bv(lo))))
        return _norm_bytes(out)

    def __getitem__(self, i):
        r = self.b[i]
        if isinstance(r, SymBytes):
            return SymStr(r)
        if isinstance(r, (builtins.bytes, builtins.bytearray)):
            return builtins.bytes(r).decode()
        return SymStr(SymBytes([r]))

    def __bool__(self):
        return len(self.b) > 0

    __hash__ = None  # type: ignore


class DecStr(str):
    """Opaque decimal rendering of an integer (str(int) / int(str) are mutually inverse builtins).
    A real str subclass so that __repr__/__str__ implementations may return it."""

    def __new__(cls, v):
        obj = builtins.str.__new__(cls, '<dec>')
        obj.v = v
        return obj

    def __init__(self, v):
        pass

    def __eq__(self, o):
        if isinstance(o, DecStr):
            return self.v == o.v
        if isinstance(o, builtins.str):
            try:
                return self.v == builtins.int(o)
            except ValueError:
                return False
        return False

    def __ne__(self, o):
        return sym_not(self.__eq__(o))

    __hash__ = None  # type: ignore


# ---------------------------------------------------------------------------------------------
# shadowed builtins for re-instantiated modules
# ---------------------------------------------------------------------------------------------
class _IntMeta(type):
    def __instancecheck__(cls, inst):
        return isinstance(inst, (builtins.int, SymInt, IntZ))


class _Int(metaclass=_IntMeta):
    def __new__(cls, x=0, *a):
        if isinstance(x, DecStr):
            return x.v
        if isinstance(x, (SymInt, IntZ)):
            return x
        if isinstance(x, Ratio):
            return x.__int__()
        if isinstance(x, SymBool):
            return x.__int__()
        if isinstance(x, SymStr):
            raise Abort()  # decimal parsing of symbolic text: outside the claim
        if hasattr(type(x), '__int__') and type(x).__module__.startswith('pytezos'):
            return type(x).__int__(x)
        return builtins.int(x, *a)

    @staticmethod
    def from_bytes(b, byteorder='big', *, signed=False):
        if isinstance(b, SymBytes):
            if byteorder != 'big':
                b = SymBytes(list(reversed(b.items)))
            n = len(b.items)
            if 8 * n > EX.W - (0 if signed else 1):
                # may not fit: make it a width obligation on the leading bytes
                pass
            acc = z3.BitVecVal(0, EX.W)
            for k, it in enumerate(b.items):
                sh = 8 * (n - 1 - k)
                if sh >= EX.W:
                    EX.no_overflow(bv(it) == 0, 'from_bytes width')
                    continue
                term = bv(it) << sh
                if sh + 8 > EX.W - 1:
                    EX.no_overflow(z3.LShR(term, sh) == bv(it), 'from_bytes width')
                    if not signed:
                        EX.no_overflow(term >= 0, 'from_bytes width')
                acc = acc | term
            if signed and n > 0:
                if 8 * n < EX.W:
                    top = bv(b.items[0])
                    neg = (top & 0x80) != 0
                    acc = z3.If(neg, acc - z3.BitVecVal(1 << (8 * n), EX.W), acc)
            return SymInt(z3.simplify(acc))
        return builtins.int.from_bytes(b, byteorder, signed=signed)


class _BytesMeta(type):
    def __instancecheck__(cls, inst):
        return isinstance(inst, (builtins.bytes, SymBytes)) and not isinstance(inst, SymByteArray)


class _Bytes(metaclass=_BytesMeta):
    def __new__(cls, x=b'', *a):
        if isinstance(x, SymBytes):
            return SymBytes(x.items)
        if isinstance(x, (list, tuple)) and any(isinstance(i, SymInt) for i in x):
            return SymBytes(x)
        if hasattr(type(x), '__bytes__') and type(x).__module__.startswith('pytezos'):
            return type(x).__bytes__(x)
        return builtins.bytes(x, *a)

    @staticmethod
    def fromhex(h):
        if isinstance(h, SymHex):
            return h.b
        if isinstance(h, SymStr):
            return h.hex_decode()
        return builtins.bytes.fromhex(h)


class _StrMeta(type):
    def __instancecheck__(cls, inst):
        return isinstance(inst, (builtins.str, SymStr, DecStr, SymHex))


class _Str(metaclass=_StrMeta):
    def __new__(cls, x='', *a):
        if isinstance(x, (SymInt, IntZ)):
            return DecStr(x)
        if isinstance(x, (SymStr, DecStr, SymHex)):
            return x
        if not a and type(x).__module__.startswith('pytezos') and hasattr(x, 'value'):
            try:
                r = type(x).__str__(x)
                if isinstance(r, (SymStr, DecStr, SymHex, builtins.str)):
                    return r
            except Exception:
                pass
        return builtins.str(x, *a)


class _BoolMeta(type):
    def __instancecheck__(cls, inst):
        return isinstance(inst, (builtins.bool, SymBool))


class _Bool(metaclass=_BoolMeta):
    def __new__(cls, x=False):
        if isinstance(x, SymBool):
            return x
        if isinstance(x, (SymInt, IntZ)):
            return SymBool(x.e != 0)
        if hasattr(type(x), '__bool__') and type(x).__module__.startswith('pytezos'):
            return type(x).__bool__(x)
        return builtins.bool(x)


_TYPE_MAP = {builtins.int: _Int, builtins.bytes: _Bytes, builtins.str: _Str, builtins.bool: _Bool}


def _isinstance(x, t):
    if isinstance(t, tuple):
        return any(_isinstance(x, u) for u in t)
    t2 = _TYPE_MAP.get(t, t)
    if t is builtins.bytearray:
        return isinstance(x, (builtins.bytearray, SymByteArray))
    return isinstance(x, t2)


def _len(x):
    return builtins.len(x)


def _abs(x):
    return abs(x)


def _divmod(a, b):
    if isinstance(a, (SymInt, IntZ)):
        return a.__divmod__(b)
    if isinstance(b, (SymInt, IntZ)):
        return b.__rdivmod__(a)
    return builtins.divmod(a, b)


def _const_method(const, name, *args, **kw):
    """Method call on a bytes/str *constant* receiver whose C implementation rejects proxies."""
    if name == 'join':
        parts = list(args[0])
        for p in parts:
            if hasattr(type(p), '__bvx_join__'):
                return type(p).__bvx_join__(const, parts)
        if isinstance(const, builtins.bytes) and any(isinstance(p, SymBytes) for p in parts):
            out: list = []
            for k, p in enumerate(parts):
                if k:
                    out.extend(list(const))
                out.extend(p.items if isinstance(p, SymBytes) else list(p))
            return SymBytes(out)
        if isinstance(const, builtins.str) and any(isinstance(p, SymStr) for p in parts):
            out = []
            for k, p in enumerate(parts):
                if k:
                    out.extend(list(const.encode()))
                out.extend(p.b.items if isinstance(p, SymStr) else list(p.encode()))
            return SymStr(SymBytes(out))
        return const.join(parts)
    return getattr(const, name)(*args, **kw)


SHADOWS = {
    'int': _Int, 'bytes': _Bytes, 'bytearray': SymByteArray, 'str': _Str, 'bool': _Bool,
    'isinstance': _isinstance, 'divmod': _divmod, '__bvx_const_method__': _const_method,
}


class _Rewriter(ast.NodeTransformer):
    def visit_Call(self, node):
        self.generic_visit(node)
        f = node.func
        if isinstance(f, ast.Attribute) and isinstance(f.value, ast.Constant) and isinstance(f.value.value, (builtins.bytes, builtins.str)):
            return ast.copy_location(
                ast.Call(func=ast.Name('__bvx_const_method__', ast.Load()),
                         args=[f.value, ast.Constant(f.attr)] + node.args, keywords=node.keywords), node)
        return node


def load_module(path: str, name: str, extra: Optional[dict] = None):
    """Re-instantiate a pytezos module from its current source with shadowed builtins."""
    src = open(path).read()
    tree = _Rewriter().visit(ast.parse(src))
    ast.fix_missing_locations(tree)
    mod = types.ModuleType(name)
    mod.__file__ = path
    mod.__dict__.update(SHADOWS)
    if extra:
        mod.__dict__.update(extra)
    exec(compile(tree, path, 'exec'), mod.__dict__)
    return mod


class silenced:
    """Replace format_stdout in the pytezos.michelson.instructions modules by a no-op (formatting is not the subject
    and cannot render proxies)."""

    def __enter__(self):
        import sys

        import pytezos.michelson.instructions  # noqa

        self.saved = []
        for name, mod in list(sys.modules.items()):
            if name.startswith('pytezos.michelson') and hasattr(mod, 'format_stdout'):
                self.saved.append((mod, mod.format_stdout))
                mod.format_stdout = lambda *a, **kw: ''
        return self

    def __exit__(self, *a):
        for mod, f in self.saved:
            mod.format_stdout = f
        return False


class shadowed:
    """Context manager: set the shadow builtins as attributes of live modules (types keep identity)."""

    def __init__(self, *modules, extra: Optional[Dict[str, Any]] = None, names=('int', 'bytes', 'str', 'bool', 'isinstance', 'bytearray')):
        self.modules = modules
        self.names = names
        self.extra = extra or {}
        self.saved: list = []

    def __enter__(self):
        for m in self.modules:
            for n in self.names:
                self.saved.append((m, n, m.__dict__.get(n, _MISSING)))
                setattr(m, n, SHADOWS[n])
            for n, v in self.extra.items():
                if hasattr(m, n):
                    self.saved.append((m, n, m.__dict__.get(n, _MISSING)))
                    setattr(m, n, v)
        return self

    def __exit__(self, *a):
        for m, n, v in reversed(self.saved):
            if v is _MISSING:
                try:
                    delattr(m, n)
                except AttributeError:
                    pass
            else:
                setattr(m, n, v)
        return False


_MISSING = object()


# ---------------------------------------------------------------------------------------------
# runner
# ---------------------------------------------------------------------------------------------
def run(ob: Ob, excluded: List[str], timeout: float) -> Dict[str, Any]:
    global EX
    Wd = int(ob.opts.get('W', 64))
    ex = Explorer(W=Wd, timeout=timeout)
    EX = ex
    t0 = time.time()
    verdict = None
    message = ''
    max_paths = int(ob.opts.get('max_paths', 10**9))
    try:
        while True:
            ex.begin()
            try:
                ex._excluded = excluded
                ob.sym(ob.P, ex)
                ex.paths += 1
                ex.finish_path()
            except Abort:
                ex.paths += 1
            except Skip:
                ex.paths += 1
            except Found:
                ex.paths += 1
                verdict = 'refuted'
                ex.end()
                break
            except Inconclusive:
                raise
            except RecursionError:
                raise
            except Exception as e:  # an exception escaping the harness is a failed obligation
                import traceback

                ex.paths += 1
                ok, m = ex._check(z3.BoolVal(True))
                if ok:
                    ex.cex = {'witness': ex.model_witness(m), 'message': f'exception {type(e).__name__}: {str(e)[:300]}',
                              'tb': traceback.format_exc()[-1500:]}
                    verdict = 'refuted'
                    ex.end()
                    break
            ex.end()
            if ex.width_violation:
                verdict = 'inconclusive'
                message = f'bound too small: width {Wd} inadequate ({ex.width_violation})'
                break
            if ex.paths >= max_paths:
                verdict = 'inconclusive'
                message = f'path budget {max_paths} exhausted'
                break
            if not ex.next_path():
                break
    except Inconclusive as e:
        verdict = 'inconclusive'
        message = str(e)
    finally:
        EX = None
    res: Dict[str, Any] = {
        'paths': ex.paths, 'reached': ex.reached, 'queries': ex.queries,
        'solver_s': round(ex.solver_s, 3), 'wall_s': round(time.time() - t0, 3), 'width': Wd,
    }
    if verdict == 'refuted':
        res['verdict'] = 'refuted'
        res['witness'] = ex.cex['witness']
        res['message'] = ex.cex['message']
        if 'tb' in ex.cex:
            res['tb'] = ex.cex['tb']
    elif verdict == 'inconclusive':
        res['verdict'] = 'inconclusive'
        res['message'] = message
    elif ex.reached == 0:
        res['verdict'] = 'error'
        res['message'] = 'vacuous: no path reached the assertion'
    else:
        res['verdict'] = 'proved'
    return res


class _SymWitness:
    """w[name] inside a region expression -> the proxy of the symbol of that name created so far"""

    def __init__(self, ex):
        self.ex = ex

    def __getitem__(self, name):
        v = self.ex.symbols[name]
        if isinstance(v, list):
            return SymBytes([SymInt(z3.ZeroExt(self.ex.W - 8, b)) for b in v])
        if z3.is_bool(v):
            return SymBool(v)
        if z3.is_bv(v):
            return SymInt(v)
        return IntZ(v)

    def get(self, name, default=None):
        return self[name] if name in self.ex.symbols else default

    def __contains__(self, name):
        return name in self.ex.symbols


def apply_regions(ex: Explorer, env: Dict[str, Any], P: dict):
    """Assume the negation of every known-finding region (evaluated on the proxies)."""
    for r in getattr(ex, '_excluded', []) or []:
        scope = {'P': P, 'sym_and': sym_and, 'sym_or': sym_or, 'sym_not': sym_not, 'w': _SymWitness(ex)}
        scope.update(env)
        v = eval(r, {'__builtins__': builtins.__dict__}, scope)
        if isinstance(v, SymBool):
            ex.assume(SymBool(z3.Not(v.e)))
        elif v:
            raise Abort()
