#!/bin/bash
# tools/keep_seed.sh <src-dir> <property-id> <seed-name> "<result of my checks>"
set -eu
S="$1"; PID="$2"; NAME="$3"; RES="$4"
D=/verif/seeded/$NAME
mkdir -p "$D"
cp "$S/patch.diff" "$S/demo.py" "$D/"
python3 - "$S/meta.json" "$D/meta.json" "$PID" "$RES" <<'PY'
import json, sys
src, dst, pid, res = sys.argv[1:5]
try:
    m = json.load(open(src))
except Exception:
    m = {}
m['property'] = pid
m['confirmed_by_me'] = ('demo.py exits 0 on the clean tree and non-zero with patch.diff applied (scratch worktree, '
                        'PYTHONPATH=<wt>/src /venv/bin/python demo.py); patch applied to /repo, ./check run, patch undone')
m['check_result'] = res
json.dump(m, open(dst, 'w'), indent=1)
PY
echo kept $D
