"""C33 Registered global constants expand wherever they occur."""
from harness import mbv, mich
from vf.core import Ob

TARGETS = ['pytezos.context.impl.ExecutionContext.register_global_constant', 'pytezos.context.impl.ExecutionContext.resolve_global_constants',
           'pytezos.michelson.forge.forge_micheline']
STUBS = ['forge_script_expr (Blake2b + Base58Check of the packed expression) -> functionally consistent injective token per distinct byte string',
         'str(int)/int(str) -> opaque decimal token']
BOUNDS = {'quick': 'script skeleton with 7 reference sites, every pair of them active per obligation (type, code incl. sequences nested directly in sequences and instruction arguments, data incl. pairs and lists); '
                   '3 registered constants in a chain/diamond graph (solver-chosen edges) + one unknown hash; which constant each site names is chosen by the solver; integer leaves symbolic',
          'thorough': 'same with 4 constants'}
OUTSIDE = ['larger scripts / more constants', 'cyclic reference graphs (cannot be registered: the hash of a constant depends on its content)']
ASSUMPTIONS = ['expansion = substitution by hash of the expression exactly as registered; everything else unchanged; KeyError for unknown hashes']

UNKNOWN = 'exprUNKNOWNxxxxxxxxxxxxxxxxxxxxxxxxxxxxxxxxxxxxxxxxxxxxxxx'


def ref(h):
    return {'prim': 'constant', 'args': [{'string': h}]}


class Hasher:
    """forge_script_expr stand-in: equal byte strings get equal tokens (functional consistency), different ones different tokens."""

    def __init__(self):
        self.seen = []

    def __call__(self, packed):
        for b, tok in self.seen:
            if len(b) == len(packed) and bool(b == packed):
                return tok
        tok = 'exprHASH%02d' % len(self.seen) + 'x' * 44
        self.seen.append((packed, tok))
        return tok


def skeleton(sites):
    """sites: list of 7 Micheline nodes placed at the reference sites"""
    t0, t1, c0, c1, c2, d0, d1 = sites
    return [
        {'prim': 'parameter', 'args': [t0]},
        {'prim': 'storage', 'args': [{'prim': 'pair', 'args': [t1, {'prim': 'int'}]}]},
        {'prim': 'code', 'args': [[
            {'prim': 'DROP'},
            c0,
            [[c1], {'prim': 'UNIT'}],
            {'prim': 'DIP', 'args': [[{'prim': 'IF', 'args': [[c2], []]}]]},
            {'prim': 'PUSH', 'args': [{'prim': 'pair', 'args': [{'prim': 'int'}, {'prim': 'int'}]}, {'prim': 'Pair', 'args': [d0, {'int': '2'}]}]},
            {'prim': 'PUSH', 'args': [{'prim': 'list', 'args': [{'prim': 'int'}]}, [[d1], {'int': '1'}]], 'annots': ['@x']},
        ]]},
    ]


PLAIN = [{'prim': 'unit'}, {'prim': 'nat'}, {'prim': 'SWAP'}, {'prim': 'NOW'}, {'prim': 'LEVEL'}, {'int': '7'}, {'int': '9'}]


def ref_resolve(node, table):
    if isinstance(node, dict):
        if node.get('prim') == 'constant':
            h = node['args'][0]['string']
            if h not in table:
                raise KeyError(h)
            return ref_resolve(table[h], table)
        if node.get('args'):
            return {k: (v if k != 'args' else [ref_resolve(a, table) for a in v]) for k, v in node.items()}
        return node
    if isinstance(node, list):
        return [ref_resolve(x, table) for x in node]
    return node


def _setup(n_consts, leaf, choose):
    """Registers the constants through the real API (with the hash stub) and returns (context, hashes, table, hasher)."""
    import pytezos.context.impl as I

    ctx = I.ExecutionContext()
    hashes = []
    table = {}
    for i in range(n_consts):
        # body of constant i: a small expression with a symbolic leaf and references to earlier constants chosen by the solver
        body = [{'int': leaf(f'k{i}')}, {'prim': 'Pair', 'args': [{'int': leaf(f'k{i}b')}, {'prim': 'Unit'}]}]
        for j in range(i):
            if choose(f'edge{j}_{i}', 0, 1):
                body.append([ref(hashes[j])])        # reference nested inside a sequence inside the sequence
                body.append({'prim': 'Some', 'args': [ref(hashes[j])]})
        expr = body if i % 2 == 0 else {'prim': 'Pair', 'args': [body, {'prim': 'Unit'}]}
        ctx.register_global_constant(expr)
        h = I.forge_script_expr(I.forge_micheline(expr))
        hashes.append(h)
        table[h] = expr
    return ctx, hashes, table


def _env():
    import contextlib

    import pytezos.context.impl as I

    @contextlib.contextmanager
    def cm():
        F = mbv.forge_module()
        saved = (I.forge_micheline, I.forge_script_expr)
        I.forge_micheline, I.forge_script_expr = F.forge_micheline, Hasher()
        try:
            with mbv.env():
                yield
        finally:
            I.forge_micheline, I.forge_script_expr = saved

    return cm()


def sym_expand(P, ex):
    from harness.C05 import deq
    from vf import bvx

    n = P['n']
    ex.int_backend = 'bv'

    def leaf(name):
        v = ex.bv(name)
        ex.assume((v >= 0) & (v < 64))
        return bvx.DecStr(v)

    def choose(name, lo, hi):
        return mbv._choose(ex, name, lo, hi)

    with _env():
        ctx, hashes, table = _setup(n, leaf, choose)
        ex.check(set(ctx.global_constants.keys()) == set(hashes), 'every constant is registered under the hash of the expression as given')
        sites = []
        unknown_used = False
        for s in range(7):
            k = choose(f'site{s}', 0, n + 1) if s in P['sites'] else 0
            if k == 0:
                sites.append(PLAIN[s])
            elif k <= n:
                sites.append(ref(hashes[k - 1]))
            else:
                sites.append(ref(UNKNOWN))
                unknown_used = True
        script = skeleton(sites)
        try:
            got = ctx.resolve_global_constants(script)
        except KeyError:
            if not unknown_used:
                ex.fail_here('expansion raised KeyError although every referenced constant is registered')
            ex.check(True)
            return
        except (bvx.Abort, bvx.Found, bvx.Inconclusive):
            raise
        except Exception as e:  # noqa
            ex.fail_here(f'expansion failed: {type(e).__name__}: {e}')
        if unknown_used:
            ex.fail_here('expansion succeeded although the script references an unknown hash')
        exp = ref_resolve(script, table)
        ex.check(deq(got, exp), 'every reference is replaced by the registered expression (recursively), everything else unchanged')


def conc_expand(P, w):
    import pytezos.context.impl as I

    n = P['n']

    def leaf(name):
        return str(int(w.get(name, 0)))

    def choose(name, lo, hi):
        return int(w.get(name, lo))

    ctx = I.ExecutionContext()
    hashes, table = [], {}
    for i in range(n):
        body = [{'int': leaf(f'k{i}')}, {'prim': 'Pair', 'args': [{'int': leaf(f'k{i}b')}, {'prim': 'Unit'}]}]
        for j in range(i):
            if choose(f'edge{j}_{i}', 0, 1):
                body.append([ref(hashes[j])])
                body.append({'prim': 'Some', 'args': [ref(hashes[j])]})
        expr = body if i % 2 == 0 else {'prim': 'Pair', 'args': [body, {'prim': 'Unit'}]}
        ctx.register_global_constant(expr)
        h = I.forge_script_expr(I.forge_micheline(expr))
        hashes.append(h)
        table[h] = expr
    if set(ctx.global_constants.keys()) != set(hashes):
        return {'ok': False, 'observed': 'registry keys differ from the hashes of the expressions as registered'}
    sites, unknown_used = [], False
    for s in range(7):
        k = choose(f'site{s}', 0, n + 1) if s in P['sites'] else 0
        if k == 0:
            sites.append(PLAIN[s])
        elif k <= n:
            sites.append(ref(hashes[k - 1]))
        else:
            sites.append(ref(UNKNOWN))
            unknown_used = True
    script = skeleton(sites)
    try:
        got = ctx.resolve_global_constants(script)
    except KeyError as e:
        return {'ok': unknown_used, 'observed': f'KeyError {e}', 'expected': 'KeyError' if unknown_used else 'expansion'}
    except Exception as e:  # noqa
        return {'ok': False, 'observed': f'{type(e).__name__}: {e}'}
    if unknown_used:
        return {'ok': False, 'observed': 'expansion succeeded', 'expected': 'KeyError (unknown hash)'}
    exp = ref_resolve(script, table)
    return {'ok': got == exp, 'observed': got, 'expected': exp}


# ---- whole scripts through the interface / section getters -------------------------------------------------------------------
NAT, INT, LIT = {'prim': 'nat'}, {'prim': 'int'}, {'int': '7'}
VBODY_PLAIN = [{'prim': 'DROP'}, {'prim': 'PUSH', 'args': [INT, LIT]}]


def _script_setup(choose):
    """Registers type / literal / code constants (one of them referring to others); returns (ctx, table, refs by sort)."""
    import pytezos.context.impl as I

    ctx = I.ExecutionContext()
    table = {}

    def reg(e):
        ctx.register_global_constant(e)
        h = I.forge_script_expr(I.forge_micheline(e))
        table[h] = e
        return ref(h)

    r_nat, r_int, r_lit = reg(NAT), reg(INT), reg(LIT)
    body = [{'prim': 'DROP'}, {'prim': 'PUSH', 'args': [r_int if choose('body_type_ref', 0, 1) else INT, r_lit if choose('body_lit_ref', 0, 1) else LIT]}]
    r_body = reg(body)
    return ctx, table, {'nat': r_nat, 'int': r_int, 'lit': r_lit, 'body': r_body}


def _whole_script(choose, R, tag, sites=None):
    """A well-formed script with a view; each of 6 sites is plain, a reference, or (one site per script at most) an unknown hash."""
    plain = {'storage': NAT, 'view_in': NAT, 'view_out': INT, 'view_body': VBODY_PLAIN, 'push_type': INT, 'push_lit': LIT}
    const = {'storage': R['nat'], 'view_in': R['nat'], 'view_out': R['int'], 'view_body': R['body'], 'push_type': R['int'], 'push_lit': R['lit']}
    S = {}
    active = [k for k in plain if sites is None or k in sites]
    u = choose(f'{tag}:unknown_site', 0, len(active))          # 0 = no unknown hash, i = the i-th varying site names an unknown hash
    unknown_used = u > 0
    for k in plain:
        if k in active and unknown_used and active[u - 1] == k:
            S[k] = ref(UNKNOWN)
        elif k in active:
            S[k] = const[k] if choose(f'{tag}:{k}', 0, 1) else plain[k]
        else:
            S[k] = plain[k]
    script = [
        {'prim': 'parameter', 'args': [{'prim': 'unit'}]},
        {'prim': 'storage', 'args': [S['storage']]},
        {'prim': 'code', 'args': [[{'prim': 'CDR'}, {'prim': 'PUSH', 'args': [S['push_type'], S['push_lit']]}, {'prim': 'DROP'}, {'prim': 'NIL', 'args': [{'prim': 'operation'}]}, {'prim': 'PAIR'}]]},
        {'prim': 'view', 'args': [{'string': 'seven'}, S['view_in'], S['view_out'], S['view_body']]},
    ]
    return script, unknown_used


def _section(script, name):
    return [x for x in script if x['prim'] == name]


def _check_script(P, choose, check, fail):
    import pytezos.context.impl as I
    from pytezos.contract.interface import ContractInterface

    ctx, table, R = _script_setup(choose)
    script, unknown = _whole_script(choose, R, 's1') if P['via'] == 'interface' else (None, False)
    if P['via'] == 'interface':
        try:
            ci = ContractInterface.from_micheline(script, ctx)
        except KeyError:
            if not unknown:
                fail('from_micheline raised KeyError although every referenced constant is registered')
            return
        except Exception as e:  # noqa
            if type(e).__name__ in ('Abort', 'Found', 'Inconclusive'):
                raise
            fail(f'from_micheline failed: {type(e).__name__}: {e}')
            return
        if unknown:
            fail('from_micheline succeeded although the script references an unknown hash')
            return
        exp = ref_resolve(script, table)
        check(ci.to_micheline() == exp, 'ContractInterface.from_micheline expands every section (parameter, storage, code, views)')
        check(ci.context.views_expr == _section(exp, 'view'), 'the view sections kept by the context are expanded')
        return
    if P['via'] == 'views':
        # one view out of two: expanding the requested view does not depend on what the sibling view references
        script, unknown = _whole_script(choose, R, 's3', ('view_body', 'view_out'))
        sibling_unknown = choose('sibling_unknown', 0, 1)
        sib = {'prim': 'view', 'args': [{'string': 'other'}, NAT, ref(UNKNOWN) if sibling_unknown else R['int'], VBODY_PLAIN]}
        c3 = I.ExecutionContext(script={'code': script + [sib]}, global_constants=ctx.global_constants)
        try:
            got = c3.get_view_expr('seven')
        except KeyError as e:
            fail(f'get_view_expr raised {e} for a view whose own references are ' + ('not all registered' if unknown else 'all registered'))
            return
        if unknown:
            check(got is None or False, 'a view that references an unknown hash is not expanded')
        else:
            check(got == ref_resolve(_section(script, 'view')[0], table), 'get_view_expr(name) expands the requested view whatever its sibling references')
        # the storage value (data position) with an EMPTY registry: every reference is unknown
        c4 = I.ExecutionContext(script={'code': script, 'storage': {'prim': 'Pair', 'args': [R['lit'], {'int': '1'}]}})
        try:
            c4.get_storage_value()
            fail('get_storage_value expanded a reference although nothing is registered in that context')
        except KeyError:
            pass
        c5 = I.ExecutionContext(script={'code': script, 'storage': {'prim': 'Pair', 'args': [R['lit'], {'int': '1'}]}}, global_constants=ctx.global_constants)
        check(c5.get_storage_value() == {'prim': 'Pair', 'args': [LIT, {'int': '1'}]}, 'get_storage_value expands references in the data position')
        return
    # section getters of one context, for two scripts in a row
    script, unknown = _whole_script(choose, R, 's1', ('storage', 'view_out', 'push_lit'))
    c2 = I.ExecutionContext(script={'code': script}, global_constants=ctx.global_constants)
    for round_ in (1, 2):
        if round_ == 2:
            script, unknown = _whole_script(choose, R, 's2', ('view_body', 'push_type', 'push_lit'))
            c2.set_parameter_expr(_section(script, 'parameter')[0])
            c2.set_storage_expr(_section(script, 'storage')[0])
            c2.set_code_expr(_section(script, 'code')[0])
            c2.views_expr = _section(script, 'view')
        try:
            got = [c2.get_parameter_expr(), c2.get_storage_expr(), c2.get_code_expr()] + list(c2.get_views_expr())
        except KeyError:
            if not unknown:
                fail(f'script {round_}: a section getter raised KeyError although every referenced constant is registered')
            return
        if unknown:
            fail(f'script {round_}: the section getters succeeded although the script references an unknown hash')
            return
        check(got == ref_resolve(script, table), f'script {round_}: the section getters return the expanded sections of the current script')


def sym_script(P, ex):
    with _env():
        _check_script(P, lambda n, lo, hi: mbv._choose(ex, n, lo, hi), lambda c, label: ex.check(c, label), lambda m: ex.fail_here(m))
        ex.check(True)


def conc_script(P, w):
    problems = []
    _check_script(P, lambda n, lo, hi: int(w.get(n, lo)), lambda c, label: (None if c else problems.append(label)), problems.append)
    return {'ok': not problems, 'observed': problems[:3]}


def obligations(tier):
    q = tier == 'quick'
    n = 3 if q else 4
    import itertools

    extra = [Ob('script/through-ContractInterface.from_micheline', 'bvx', sym_script, conc_script, {'via': 'interface'}, timeout=300,
                bounds='script with a view: 6 reference sites (storage type, view input/output types, view body, PUSH type, PUSH literal) each plain / reference / unknown hash (solver-chosen); '
                       'the body constant refers to other constants', targets=TARGETS + ['pytezos.contract.interface.ContractInterface.from_micheline']),
             Ob('script/one-view-of-two-and-storage-value', 'bvx', sym_script, conc_script, {'via': 'views'}, timeout=300,
                bounds='get_view_expr(name) on a script with two views (the sibling references a registered or an unknown hash); get_storage_value with an empty and with a filled registry',
                targets=TARGETS + ['pytezos.context.impl.ExecutionContext.get_view_expr/get_storage_value']),
             Ob('script/through-section-getters-twice', 'bvx', sym_script, conc_script, {'via': 'getters'}, timeout=600,
                bounds='the same with 3 varying sites per script, read through get_parameter_expr/get_storage_expr/get_code_expr/get_views_expr of one context for two scripts set one after the other',
                targets=TARGETS + ['pytezos.context.impl.ExecutionContext.get_parameter_expr/get_storage_expr/get_code_expr/get_views_expr/set_*_expr'])]
    names = ['type:parameter', 'type:in-pair', 'code:seq', 'code:seq-in-seq', 'code:instr-arg', 'data:in-pair', 'data:seq-in-seq']
    obs = []
    for pair in itertools.combinations(range(7), 2):
        obs.append(Ob(f'expand/sites={names[pair[0]]}+{names[pair[1]]}', 'bvx', sym_expand, conc_expand, {'n': n, 'sites': list(pair)},
                      timeout=300 if q else 1800, opts={'W': 32},
                      bounds=f'{n} constants (solver-chosen reference edges); the two named sites each name nothing / any constant / an unknown hash; leaves symbolic in 0..63',
                      targets=TARGETS))
    return obs + extra
