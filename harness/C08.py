"""C08 Key import, export and address derivation are consistent -- plumbing (ideal primitives)."""
import contextlib

from harness import C07, cryptostub
from vf.core import Ob

TARGETS = ['pytezos.crypto.key.Key.from_secret_exponent', 'pytezos.crypto.key.Key.from_encoded_key (incl. decryption)', 'pytezos.crypto.key.Key.secret_key (incl. encryption)',
           'pytezos.crypto.key.Key.public_key', 'pytezos.crypto.key.Key.public_key_hash', 'pytezos.crypto.key.get_passphrase', 'pytezos.crypto.key.validate_mnemonic',
           'pytezos.crypto.key.Key.from_mnemonic', 'pytezos.michelson.instructions.crypto.HashKeyInstruction.execute', 'pytezos.crypto.encoding.base58_encode/base58_decode/scrub_input']
STUBS = cryptostub.STUBS + ['pbkdf2_hmac -> injective function of (password, salt); secretbox -> ideal authenticated encryption (open succeeds exactly for the same key and nonce); randombytes -> fresh symbolic salt',
                            'mnemonic package: word list lookups return a symbolic 11-bit index per word; Mnemonic.to_seed -> injective function of (mnemonic, passphrase); SHA-256 -> ideal function; '
                            'bin/hex/format/zfill/int(s, base)/unhexlify on symbolic integers -> digit-string proxies (harness/C08.Digits) that keep the exact value and digit count']
BOUNDS = {'quick': '4 curves; symbolic 32-byte secret (and the 64-byte Ed25519 form); passphrases: symbolic bytes and symbolic printable ASCII text of 1..4 characters; mnemonics of 12, 15, 18, 21, 24 words with symbolic word '
                   'indices (every word sequence of those lengths), wrong lengths 11 and 13',
          'thorough': 'passphrases up to 6 characters'}
OUTSIDE = ['public-key derivation against an independent implementation (curve arithmetic is an ideal stand-in)', 'PBKDF2 / secretbox / SHA-256 themselves', 'non-ASCII passphrases',
           'unicode normalisation of mnemonic text (the words are tokens of the word list)']
ASSUMPTIONS = ['address = base58(tz1/tz2/tz3/tz4 by curve, Blake2b-160 of the public key)', 'BIP-39: a word sequence is valid iff its last ENT/32 bits equal the first bits of SHA-256 over the first ENT bits taken as exactly ENT/8 bytes']

PKH = {'ed': b'tz1', 'sp': b'tz2', 'p2': b'tz3', 'BL': b'tz4'}
DERIVE = {'ed': 'ed25519.pk_of_seed', 'sp': 'secp256k1.pk', 'p2': 'p256.point', 'BL': 'bls.pk'}


def _same(ex, a, b, label):
    ex.check(len(a) == len(b) and (a == b), label)


def sym_address(P, ex):
    import pytezos.crypto.key as K
    import pytezos.michelson.instructions.crypto as IC
    from pytezos.context.impl import ExecutionContext
    from pytezos.michelson.stack import MichelsonStack
    from pytezos.michelson.types import KeyType
    from vf import bvx

    curve = P['curve']
    with cryptostub.env(ex) as (c, b):
        secret, key = C07._mk_key(K, ex, curve)
        if curve == 'p2':
            # SEC1 compressed form of the point derived from the secret: parity tag, then x on exactly 32 bytes
            pts = [x for x in c.calls if x[0] == 'p256.point']
            ex.check(len(pts) == 1, 'one point derivation')
            raw = pts[0][2]
            want = bvx.SymBytes([bvx.SymInt(bvx.bv(2) + (bvx.bv(raw[63]) & 1))] + list(raw[:32].items))
            _same(ex, key.public_point, want, 'public key = SEC1 compressed form (tag by the parity of y, x on 32 bytes)')
            org = pts[0][:2]
        else:
            org = c.origin_of(key.public_point)
        ex.check(org is not None and org[0] == DERIVE[curve], 'public key is derived by the primitive of the curve')
        arg = org[1][0]
        if curve in ('ed', 'sp'):
            _same(ex, arg, secret, 'derived from the given secret')
        else:
            ex.check(arg == bvx._Int.from_bytes(secret, 'big' if curve == 'p2' else 'little'), 'derived from the given secret exponent')
        pkh = key.public_key_hash()
        ex.check(pkh in b.rep, 'public key hash is a base58 text')
        (h, L, Pfx, n), payload = b.rep[pkh]
        ex.check(h == PKH[curve] and n == 20, f'address prefix {PKH[curve]!r}')
        o2 = c.origin_of(payload)
        ex.check(o2 is not None and o2[0] == 'blake2b-160' and len(o2[1][1]) == 0, 'address is an unkeyed Blake2b-160 digest')
        _same(ex, o2[1][0], key.public_point, 'digest of the public key')
        # public key export / import, HASH_KEY
        pk_text = key.public_key()
        pub = K.Key.from_encoded_key(pk_text)
        _same(ex, pub.public_point, key.public_point, 'imported public key equals the exported one')
        ex.check(pub.curve == key.curve and pub.secret_exponent is None, 'curve kept, no secret')
        stack = MichelsonStack()
        stack.push(KeyType.from_value(pk_text))
        with bvx.shadowed(IC), bvx.silenced():
            IC.HashKeyInstruction.execute(stack, [], ExecutionContext())
        res = stack.items[0]
        ex.check(str(res.value if hasattr(res, 'value') else res) == pkh or res.value == pkh, 'HASH_KEY returns the same address')


def _passphrase(ex, P):
    from vf import bvx

    kind, n = P['pass'], P.get('plen', 0)
    if kind == 'none':
        return None
    raw = ex.bytes('passphrase', n)
    if not isinstance(raw, bvx.SymBytes):
        raw = bvx.SymBytes(list(raw))
    if kind == 'bytes':
        return raw
    for it in raw.items:
        v = bvx.SymInt(bvx.bv(it))
        ex.assume((v >= 32) & (v <= 126))
    return bvx.SymStr(raw)


def sym_roundtrip(P, ex):
    import pytezos.crypto.key as K

    curve = P['curve']
    with cryptostub.env(ex) as (c, b):
        if P.get('ed64'):
            seed = ex.bytes('secret', 32)
            key0 = K.Key.from_secret_exponent(seed, curve=b'ed')
            key = K.Key.from_secret_exponent(key0.secret_exponent, curve=b'ed')
            _same(ex, key.public_point, key0.public_point, '64-byte Ed25519 secret key gives the same public key as its seed')
        else:
            secret, key = C07._mk_key(K, ex, curve)
        pw = _passphrase(ex, P)
        kw = {} if pw is None else {'passphrase': pw}
        if P.get('ed64') and pw is None:
            kw['ed25519_seed'] = False
        text = key.secret_key(**kw)
        ex.check(text in b.rep, 'secret_key() returns a base58 text')
        (h, L, Pfx, n), payload = b.rep[text]
        want = C07.CURVES[curve] + (b'esk' if pw is not None else b'sk')
        ex.check(h == want, f'exported under the prefix {want!r}')
        back = K.Key.from_encoded_key(text, **({} if pw is None else {'passphrase': pw}))
        _same(ex, back.secret_exponent, key.secret_exponent, 'imported secret equals the exported one')
        _same(ex, back.public_point, key.public_point, 'imported public key equals the original')
        ex.check(back.curve == key.curve, 'curve kept')
        if pw is not None:
            # the passphrase reaches the key derivation as its bytes, together with the stored salt
            kd = [x for x in c.calls if x[0].startswith('pbkdf2')]
            ex.check(len(kd) == 1, 'export and import derive the same encryption key (one distinct PBKDF2 evaluation)')
            pbytes = pw.encode() if hasattr(pw, 'encode') else pw
            _same(ex, kd[0][1][0], pbytes, 'PBKDF2 password = the passphrase bytes')
            _same(ex, kd[0][1][1], payload[:8], 'PBKDF2 salt = the first 8 bytes of the encoded key')
            if P.get('wrong'):
                other = ex.bytes('other_passphrase', len(pbytes))
                ex.assume(other != pbytes)
                try:
                    K.Key.from_encoded_key(text, passphrase=other)
                    ok = True
                except ValueError:
                    ok = False
                ex.check(not ok, 'a different passphrase does not decrypt')


# --- mnemonic ---------------------------------------------------------------------------------------------------------
class Digits:
    """Digit string of a symbolic natural: exact value, base, and either a fixed digit count or 'minimal' (count None)."""

    def __init__(self, v, base, n=None, prefix=''):
        self.v, self.base, self.n, self.prefix = v, base, n, prefix

    @property
    def _bits(self):
        return 1 if self.base == 2 else 4

    def _count(self):
        """Digit count of the minimal rendering (forks)."""
        from vf import bvx

        if self.n is not None:
            return self.n
        k = 1
        W = bvx.EX.W
        while (k * self._bits) < W - 1 and bool(self.v >= (1 << (k * self._bits))):
            k += 1
        return k

    def __len__(self):
        return len(self.prefix) + self._count()

    def __getitem__(self, s):
        from vf import bvx

        if not isinstance(s, slice) or s.step is not None:
            raise NotImplementedError
        if self.prefix:
            if s.start == len(self.prefix) and s.stop is None:
                return Digits(self.v, self.base, self.n)
            raise NotImplementedError
        n = self._count()
        a, b = s.indices(n)[:2]
        if b <= a:
            return Digits(0, self.base, 0)
        sh = (n - b) * self._bits
        width = (b - a) * self._bits
        v = (self.v >> sh) & ((1 << width) - 1) if sh else self.v & ((1 << width) - 1)
        if a == 0:
            v = (self.v >> sh) if sh else self.v
            if isinstance(v, (bvx.SymInt, bvx.IntZ)) or True:
                v = v & ((1 << width) - 1)
        return Digits(v, self.base, b - a)

    def zfill(self, width):
        from vf import bvx

        if self.n is None and isinstance(self.v, (bvx.SymInt, bvx.IntZ)) and width * self._bits < bvx.EX.W - 1:
            # one fork: does the value fit into `width` digits?  (no fork at all when the path condition already implies it)
            if bool(self.v < (1 << (width * self._bits))):
                return Digits(self.v, self.base, width)
        n = self._count()
        return Digits(self.v, self.base, max(n, width))

    def rstrip(self, chars=None):
        if chars == 'L':
            return self
        raise NotImplementedError

    def __eq__(self, o):
        if isinstance(o, Digits):
            if self.base != o.base or self.prefix != o.prefix:
                raise NotImplementedError
            if self._count() != o._count():
                return False
            return self.v == o.v
        return NotImplemented

    def __ne__(self, o):
        from vf import bvx

        r = self.__eq__(o)
        return bvx.sym_not(r) if r is not NotImplemented else r

    __hash__ = None  # type: ignore

    @classmethod
    def __bvx_join__(cls, const, parts):
        if const != '' or not all(isinstance(p, Digits) for p in parts):
            raise NotImplementedError
        return _join(parts)


def _join(parts):
    v, n = 0, 0
    for p in parts:
        k = p._count()
        v = (v << (k * p._bits)) | p.v if n else p.v
        n += k
    return Digits(v, parts[0].base if parts else 2, n)


class _JoinStr(str):
    def join(self, it):
        parts = list(it)
        if parts and all(isinstance(p, Digits) for p in parts):
            return _join(parts)
        return str.join(self, parts)


class WordTok:
    def __init__(self, idx):
        self.idx = idx


class SymMnemonic:
    """A mnemonic of k words; each word is a token of the word list with a symbolic index."""

    def __init__(self, ex, k):
        self.words = []
        for i in range(k):
            v = ex.bv(f'word{i}')
            ex.assume((v >= 0) & (v < 2048))
            self.words.append(WordTok(v))

    def split(self, sep=None):
        return list(self.words)


@contextlib.contextmanager
def _mnemonic_env(c, ex, K):
    from vf import bvx

    class WordList:
        def index(self, w):
            return w.idx

    class M:
        def __init__(self, language='english'):
            self.wordlist = WordList()

        def normalize_string(self, s):
            return s

        @staticmethod
        def to_seed(mnemonic, passphrase=''):
            return c.fn('bip39.seed', 64, tuple(w.idx for w in mnemonic.words) if isinstance(mnemonic, SymMnemonic) else mnemonic, passphrase.encode() if hasattr(passphrase, 'encode') else passphrase)

    class Binascii:
        @staticmethod
        def unhexlify(d):
            if not isinstance(d, Digits):
                import binascii

                return binascii.unhexlify(d)
            n = d._count()
            if n % 2:
                import binascii

                raise binascii.Error('Odd-length string')
            return bvx.SymBytes([bvx.SymInt(bvx.bv((d.v >> (8 * (n // 2 - 1 - i))) & 255)) for i in range(n // 2)])

    def _bin(x):
        return Digits(x, 2, None, '0b') if isinstance(x, (bvx.SymInt, bvx.IntZ)) else bin(x)

    def _hex(x):
        return Digits(x, 16, None, '0x') if isinstance(x, (bvx.SymInt, bvx.IntZ)) else hex(x)

    def _format(x, spec=''):
        if isinstance(x, (bvx.SymInt, bvx.IntZ)) and spec in ('x', 'b'):
            return Digits(x, 16 if spec == 'x' else 2)
        return format(x, spec)

    real_int = K.__dict__.get('int')

    class _IntD(bvx._Int):
        def __new__(cls, x=0, *a):
            if isinstance(x, Digits):
                return x.v
            if isinstance(x, bvx.SymHex) and a and a[0] == 16:
                return bvx._Int.from_bytes(x.b, 'big')
            return bvx._Int.__new__(cls, x, *a)

    saved = {n: K.__dict__.get(n, None) for n in ('Mnemonic', 'binascii', 'bin', 'hex', 'format', 'int')}
    K.Mnemonic, K.binascii, K.bin, K.hex, K.format, K.int = M, Binascii, _bin, _hex, _format, _IntD
    try:
        yield
    finally:
        for n, v in saved.items():
            if v is None:
                if n in K.__dict__:
                    delattr(K, n)
            else:
                setattr(K, n, v)
        del real_int


def sym_mnemonic(P, ex):
    """validate_mnemonic accepts a word sequence exactly when its BIP-39 checksum is valid."""
    from vf import bvx

    k = P['words']
    K = cryptostub.reinstantiated_key_module()
    with cryptostub.env(ex, key_module=K) as (c, b), _mnemonic_env(c, ex, K):
        m = SymMnemonic(ex, k)
        try:
            K.validate_mnemonic(m)
            accepted = True
        except ValueError:
            accepted = False
        if k not in (12, 15, 18, 21, 24):
            ex.check(not accepted, 'a word count outside 12/15/18/21/24 is rejected')
            return
        total = 11 * k
        cs = total // 33
        ent = total - cs
        allbits = 0
        for w in m.words:
            allbits = (allbits << 11) | w.idx
        entropy = allbits >> cs
        data = bvx.SymBytes([bvx.SymInt(bvx.bv((entropy >> (8 * (ent // 8 - 1 - i))) & 255)) for i in range(ent // 8)])
        digest = c.fn('sha256', 32, data, b'')
        top = bvx._Int.from_bytes(digest, 'big') >> (256 - cs)
        valid = (allbits & ((1 << cs) - 1)) == top
        ex.check(bvx.SymBool(bvx._b(valid) == z3bool(accepted)), 'accepted exactly when the checksum bits equal the first bits of SHA-256(entropy)')


def z3bool(x):
    import z3

    return z3.BoolVal(bool(x))


def sym_derive(P, ex):
    """from_mnemonic: seed = to_seed(mnemonic, email + passphrase); secret = first 32 bytes; deterministic."""
    from vf import bvx

    curve = P['curve']
    K = cryptostub.reinstantiated_key_module()
    with cryptostub.env(ex, key_module=K) as (c, b), _mnemonic_env(c, ex, K):
        m = SymMnemonic(ex, 12)
        email = bvx.SymStr(ex.bytes('email', 2))
        pw = bvx.SymStr(ex.bytes('password', 2))
        k1 = K.Key.from_mnemonic(m, passphrase=pw, email=email, validate=False, curve=C07.CURVES[curve])
        k2 = K.Key.from_mnemonic(m, passphrase=pw, email=email, validate=False, curve=C07.CURVES[curve])
        _same(ex, k1.secret_exponent, k2.secret_exponent, 'derivation is deterministic (secret)')
        _same(ex, k1.public_point, k2.public_point, 'derivation is deterministic (public key)')
        seeds = [x for x in c.calls if x[0] == 'bip39.seed']
        ex.check(len(seeds) == 1, 'one distinct seed derivation')
        _same(ex, seeds[0][1][1], email.encode() + pw.encode(), 'seed passphrase = email followed by the passphrase')
        seed32 = seeds[0][2][:32]
        if curve == 'ed':
            _same(ex, k1.secret_exponent[:32], seed32, 'Ed25519 seed = first 32 bytes of the BIP-39 seed')
        else:
            _same(ex, k1.secret_exponent, seed32, 'secret exponent = first 32 bytes of the BIP-39 seed')


# --- replay ---------------------------------------------------------------------------------------------------------------
def conc(P, w):
    res = _conc(P, w)
    if res['ok'] and P.get('curve') == 'p2' and P['what'] in ('address', 'roundtrip'):
        # the witness constrains a primitive output (the x coordinate); real keys cannot be chosen by their public point, so other secrets are tried until one has that shape
        base = int.from_bytes(C07.real_secret('p2', w.get('secret')), 'big')
        for i in range(1, 1500):
            w2 = dict(w, secret=((base + i) % C07.ORDERS['p2'] or 1).to_bytes(32, 'big'))
            r2 = _conc(P, w2)
            if not r2['ok']:
                return dict(r2, note=f'reproduced with secret + {i}', secret={'hex': w2['secret'].hex()})
    return res


def _conc(P, w):
    from pytezos.crypto.key import Key

    problems = []
    try:
        if P['what'] == 'mnemonic':
            return _conc_mnemonic(P, w)
        curve = P.get('curve', 'ed')
        secret = C07.real_secret(curve, w.get('secret'))
        key = Key.from_secret_exponent(secret, curve=C07.CURVES[curve])
        if P.get('ed64'):
            key = Key.from_secret_exponent(key.secret_exponent, curve=b'ed')
        if P['what'] == 'address':
            import hashlib

            import base58

            from pytezos.crypto.encoding import base58_encodings

            row = next(r for r in base58_encodings if r[0] == PKH[curve])
            want = base58.b58encode_check(row[2] + hashlib.blake2b(key.public_point, digest_size=20).digest()).decode()
            if key.public_key_hash() != want:
                problems.append(f'address {key.public_key_hash()} != {want}')
            pub = Key.from_encoded_key(key.public_key())
            if pub.public_point != key.public_point or pub.public_key_hash() != want:
                problems.append('public key export/import changes the key')
            from pytezos.context.impl import ExecutionContext
            from pytezos.michelson.instructions.crypto import HashKeyInstruction
            from pytezos.michelson.stack import MichelsonStack
            from pytezos.michelson.types import KeyType

            st = MichelsonStack()
            st.push(KeyType.from_value(key.public_key()))
            HashKeyInstruction.execute(st, [], ExecutionContext())
            if str(st.items[0]) != want and getattr(st.items[0], 'value', None) != want:
                problems.append(f'HASH_KEY gives {st.items[0]}')
        elif P['what'] == 'roundtrip':
            pw = None
            if P['pass'] != 'none':
                raw = bytes(w.get('passphrase', b''))[:P['plen']].ljust(P['plen'], b'a')
                pw = raw if P['pass'] == 'bytes' else raw.decode('ascii', 'replace')
            kw = {} if pw is None else {'passphrase': pw}
            if P.get('ed64') and pw is None:
                kw['ed25519_seed'] = False
            text = key.secret_key(**kw)
            back = Key.from_encoded_key(text, **({} if pw is None else {'passphrase': pw}))
            if back.secret_exponent != key.secret_exponent or back.public_point != key.public_point:
                problems.append('export/import changes the key')
        elif P['what'] == 'derive':
            words = ' '.join(['abandon'] * 11 + ['about'])
            a = Key.from_mnemonic(words, passphrase='pw', email='e@x', curve=C07.CURVES[curve])
            b2 = Key.from_mnemonic(words, passphrase='pw', email='e@x', curve=C07.CURVES[curve])
            if a.secret_exponent != b2.secret_exponent:
                problems.append('derivation not deterministic')
    except Exception as e:  # noqa
        problems.append(f'{type(e).__name__}: {e}')
    return {'ok': not problems, 'observed': problems[:3]}


def _conc_mnemonic(P, w):
    """Real word list, real SHA-256: a mnemonic with the witness entropy and the CORRECT checksum must be accepted, with a wrong checksum rejected."""
    import hashlib

    from mnemonic import Mnemonic

    from pytezos.crypto.key import validate_mnemonic

    k = P['words']
    wl = Mnemonic('english').wordlist
    idx = [int(w.get(f'word{i}', 0)) % 2048 for i in range(k)]
    problems = []
    if k not in (12, 15, 18, 21, 24):
        try:
            validate_mnemonic(' '.join(wl[i] for i in idx))
            problems.append(f'{k} words accepted')
        except ValueError:
            pass
        return {'ok': not problems, 'observed': problems}
    total = 11 * k
    cs = total // 33
    allbits = 0
    for i in idx:
        allbits = (allbits << 11) | i
    entropy = allbits >> cs
    data = entropy.to_bytes((total - cs) // 8, 'big')
    good = hashlib.sha256(data).digest()[0] >> (8 - cs) if cs <= 8 else int.from_bytes(hashlib.sha256(data).digest(), 'big') >> (256 - cs)
    for label, check in (('valid', good), ('invalid', (good + 1) % (1 << cs))):
        bits = (entropy << cs) | check
        words = [wl[(bits >> (11 * (k - 1 - j))) & 2047] for j in range(k)]
        try:
            validate_mnemonic(' '.join(words))
            acc = True
        except ValueError:
            acc = False
        if acc != (label == 'valid'):
            problems.append(f'{label} mnemonic {" ".join(words)!r} {"accepted" if acc else "rejected"}')
    return {'ok': not problems, 'observed': problems[:2], 'entropy': data.hex()}


def obligations(tier):
    q = tier == 'quick'
    obs = []
    for curve in C07.CURVES:
        obs.append(Ob(f'address/{curve}', 'bvx', sym_address, conc, {'what': 'address', 'curve': curve}, timeout=120, opts={'W': C07.W}, targets=TARGETS, stubs=STUBS,
                      bounds='symbolic 32-byte secret'))
        obs.append(Ob(f'roundtrip/{curve}/plain', 'bvx', sym_roundtrip, conc, {'what': 'roundtrip', 'curve': curve, 'pass': 'none'}, timeout=120, opts={'W': C07.W}, targets=TARGETS, stubs=STUBS,
                      bounds='symbolic 32-byte secret, no passphrase'))
        for kind in ('bytes', 'text'):
            for plen in ((1, 2, 4) if q else (1, 2, 3, 4, 6)):
                P = {'what': 'roundtrip', 'curve': curve, 'pass': kind, 'plen': plen, 'wrong': plen == 2}
                obs.append(Ob(f'roundtrip/{curve}/encrypted/{kind}-passphrase/len={plen}', 'bvx', sym_roundtrip, conc, P, timeout=300, opts={'W': C07.W}, targets=TARGETS, stubs=STUBS,
                              bounds=f'symbolic secret, salt and {plen}-character passphrase ({kind})'))
        obs.append(Ob(f'derive/{curve}', 'bvx', sym_derive, conc, {'what': 'derive', 'curve': curve}, timeout=120, opts={'W': C07.W}, targets=TARGETS, stubs=STUBS,
                      bounds='12 symbolic words, 2-character symbolic email and passphrase'))
    obs.append(Ob('roundtrip/ed/64-byte-secret/plain', 'bvx', sym_roundtrip, conc, {'what': 'roundtrip', 'curve': 'ed', 'pass': 'none', 'ed64': True}, timeout=120, opts={'W': C07.W},
                  targets=TARGETS, stubs=STUBS, bounds='Ed25519 key created from its 64-byte secret key, exported unencrypted in the 64-byte form'))
    obs.append(Ob('roundtrip/ed/64-byte-secret/encrypted', 'bvx', sym_roundtrip, conc, {'what': 'roundtrip', 'curve': 'ed', 'pass': 'bytes', 'plen': 2, 'ed64': True}, timeout=120,
                  opts={'W': C07.W}, targets=TARGETS, stubs=STUBS, bounds='Ed25519 key created from its 64-byte secret key, exported encrypted (seed form)'))
    for k in (11, 12, 13, 15, 18, 21, 24):
        obs.append(Ob(f'mnemonic/words={k}', 'bvx', sym_mnemonic, conc, {'what': 'mnemonic', 'words': k}, timeout=300, opts={'W': 288}, targets=TARGETS, stubs=STUBS,
                      bounds=f'every sequence of {k} words of the word list (symbolic 11-bit indices)'))
    return obs
