"""C25 Injected operations carry the account's next counters."""
import contextlib

from harness import mbv, opnode
from vf.core import Ob

TARGETS = ['pytezos.context.impl.ExecutionContext.get_counter/set_counter/reset', 'pytezos.context.impl.ExecutionContext.get_counter_offset',
           'pytezos.operation.group.OperationGroup.fill', 'pytezos.operation.group.OperationGroup.autofill', 'pytezos.operation.group.OperationGroup.sign',
           'pytezos.operation.group.OperationGroup.inject', 'pytezos.operation.group.OperationGroup.send']
STUBS = ['shell (RPC) -> harness/opnode.Node: symbolic account counter, mempool that evolves with the injections, run_operation applies everything, injection succeeds or raises RpcError as the history says',
         'key -> fixed tz1 identity, sign() returns a constant signature (signing is C23/C07)', 'forge_operation_group inside group.py -> constant bytes (forging is C06); the counters are observed on '
         'the contents of the group handed to inject()', 'logger.debug -> no-op']
BOUNDS = {'quick': 'histories of up to 4 steps over the alphabet {prepare a new group of 1..2 transactions by fill() / by autofill() / by send() (autofill+sign+inject in one call), autofill() the prepared group again, extend the prepared group by one content and fill() it again, re-use of the same unfilled group object for several preparations, '
                   'sign+inject the prepared group (success / RpcError), the node bakes its mempool, another client of the account injects an operation, a foreign operation enters the mempool}; '
                   'the step sequence is chosen by the solver, the account counter is a symbolic integer; initial mempool: 0..2 own contents + optional foreign operation',
          'thorough': 'up to 5 steps, groups of 1..3 contents (1..2 at 4 steps, 1 at 5 steps)'}
OUTSIDE = ['an explicit counter= argument (the caller then owns the counter)', 'two groups prepared first and both injected afterwards (the property cannot be met by any client for both this and the '
           're-preparation history; the cached counter serves this one)', 'operations of the account entering the mempool from elsewhere between preparing and injecting a group']
ASSUMPTIONS = ['the injected group is the most recently prepared one; expected counters: node counter + number of own contents pending in the mempool + 1, +2, ...',
               'baking moves the own pending contents into the node counter']


def P(prim, *args):
    return {'prim': prim, 'args': list(args)} if args else {'prim': prim}


@contextlib.contextmanager
def _env(symbolic):
    import pytezos.context.impl as CI
    import pytezos.operation.fees as F
    import pytezos.operation.group as G
    import pytezos.operation.result as R

    class _Log:
        def __getattr__(self, name):
            return lambda *a, **kw: None

    saved = (G.forge_operation_group, G.logger, CI.logger)
    G.logger = CI.logger = _Log()
    try:
        if symbolic:
            from harness import C24
            from vf import bvx

            G.forge_operation_group = lambda payload: b'\x00'
            sf = F.forge_operation
            F.forge_operation = lambda content: C24._Sized(100)
            F.len = C24._len
            try:
                with bvx.shadowed(G, F, R, CI):
                    yield
            finally:
                F.forge_operation = sf
                del F.len
        else:
            yield
    finally:
        G.forge_operation_group, G.logger, CI.logger = saved


SIG = 'sigUHx32f9wesZ1n2BWpixXz4AQaZggEtchaQNHYGRCoWNAXx45WGW2ua3apUUUAGMLPwAU41QoaFCzVSL61VaessLg4YbbP'
STEPS = ('fill-new', 'autofill-new', 'send-new', 'autofill-again', 'inject-ok', 'inject-fails', 'bake', 'own-op-from-elsewhere', 'foreign-op', 'extend-and-refill')
FOREIGN = 'tz1VSUr8wwNhLAzempoch5d6hLRiTh8Cjcjb'


def run_history(Pp, choose, counter, check, fail, symbolic, stale=lambda step: None, stale_refill=lambda step: None):
    """Drive the real client through a history; returns the trace."""
    from pytezos.operation.group import OperationGroup
    from pytezos.rpc.errors import RpcError

    k = opnode.FakeKey('tz1', sign=lambda m, generic: SIG)
    pkh = k.public_key_hash()
    own0 = choose('initial_own_pending', 0, 2)
    foreign0 = choose('initial_foreign_pending', 0, 1) if Pp.get('foreign', True) else 0
    pending = [{'contents': [{'kind': 'transaction', 'source': pkh}]} for _ in range(own0)]
    if foreign0:
        pending.insert(0, {'contents': [{'kind': 'transaction', 'source': FOREIGN}, {'kind': 'transaction', 'source': FOREIGN}]})
    node = opnode.Node(pkh, counter, pending=pending)

    def simulate(payload):
        out = []
        for c in payload['operation']['contents']:
            c = dict(c)
            c['metadata'] = {'operation_result': {'status': 'applied', 'consumed_milligas': '1000'}}
            out.append(c)
        return {'contents': out}

    node.simulate = simulate
    fails = []
    node.inject_fails = lambda i: fails[-1]
    ctx = opnode.context(node, k)
    trace = []

    def own_pending():
        return sum(1 for op in node.pending for c in op['contents'] if c.get('source') == pkh)

    def new_group(n):
        g = OperationGroup(context=ctx)
        for i in range(n):
            g = g.transaction(FOREIGN, amount=1 + i)
        return g

    def expect(g, where):
        base = node.counter + own_pending()
        for j, c in enumerate(g.contents):
            check(mbv_int(c['counter']) == base + 1 + j, f'{where}: content {j} carries counter node+pending+{1 + j}')

    def mbv_int(x):
        if symbolic:
            from vf import bvx

            return bvx._Int(x)
        return int(x)

    def accepted(g):
        node.pending.append({'contents': [dict(c) for c in g.contents]})

    prepared = None
    attempted = False
    templates = {}
    nmax = Pp.get('nmax', 2)
    for step in range(Pp['steps']):
        opts = [0, 1, 2, 6, 8] + ([3, 4, 5, 9] if prepared is not None else [7])
        a = opts[choose(f'step{step}', 0, len(opts) - 1)]
        name = STEPS[a]
        if name in ('fill-new', 'autofill-new', 'send-new'):
            n = choose(f'n{step}', 1, nmax)
            # the unfilled group object (e.g. `op = client.transaction(..)`) may be used for several preparations
            if n in templates and Pp.get('reuse', True) and choose(f'reuse{step}', 0, 1):
                g = templates[n]
            else:
                g = new_group(n)
                templates[n] = g
            if prepared is not None and not attempted:
                # a new group is prepared while an earlier preparation was never handed to inject(): its counters are still cached
                stale(step)
            attempted = False
            if name == 'fill-new':
                prepared = g.fill()
            elif name == 'autofill-new':
                prepared = g.autofill()
            else:
                node.on_inject = lambda data: 'oo' + 'x' * 49
                fails.append(False)
                before = node.counter + own_pending()
                sent = g.send()
                for j, c in enumerate(sent.contents):
                    check(mbv_int(c['counter']) == before + 1 + j, f'step {step} send(): content {j} carries counter node+pending+{1 + j}')
                accepted(sent)
                prepared = None
            trace.append(f'{name}({n})')
        elif name == 'autofill-again':
            prepared = prepared.autofill()
            trace.append(name)
        elif name == 'extend-and-refill':
            if attempted:
                stale_refill(step)
            prepared = prepared.transaction(FOREIGN, amount=9).fill()
            attempted = False          # a new preparation that has not been handed to inject() yet
            trace.append(name)
        elif name in ('inject-ok', 'inject-fails'):
            signed = prepared.sign()
            fails.append(name == 'inject-fails')
            if name == 'inject-ok':
                expect(signed, f'step {step} inject')
                signed.inject()
                accepted(signed)
                prepared = None
            else:
                attempted = True
                try:
                    signed.inject()
                    fail('the simulated node refused the injection but inject() returned')
                except RpcError:
                    pass
            trace.append(name)
        elif name == 'bake':
            node.counter = node.counter + own_pending()
            node.pending = [op for op in node.pending if not any(c.get('source') == pkh for c in op['contents'])]
            trace.append(name)
        elif name == 'own-op-from-elsewhere':
            node.pending.append({'contents': [{'kind': 'transaction', 'source': pkh}]})
            trace.append(name)
        elif name == 'foreign-op':
            node.unprocessed.append(['ooHash', {'contents': [{'kind': 'transaction', 'source': FOREIGN}]}])
            trace.append(name)
    return trace


def sym_history(Pp, ex):
    counter = ex.int('counter')
    ex.assume((counter >= 0) & (counter < (1 << 62)))
    from vf import bvx

    def stale(step):
        if 'prepared_over_stale_cache' not in ex.symbols:
            v = ex.bv('prepared_over_stale_cache')
            ex.assume(v == 1)
            bvx.apply_regions(ex, {}, Pp)

    def stale_refill(step):
        if 'refilled_after_failed_injection' not in ex.symbols:
            v = ex.bv('refilled_after_failed_injection')
            ex.assume(v == 1)
            bvx.apply_regions(ex, {}, Pp)

    with _env(True):
        run_history(Pp, lambda n, lo, hi: mbv._choose(ex, n, lo, hi), counter, lambda c, label: ex.check(c, label), lambda m: ex.fail_here(m), True, stale, stale_refill)
        ex.check(True)


def conc_history(Pp, w):
    w = dict(w)
    problems = []
    trace = []

    class Stop(Exception):
        pass

    def check(c, label):
        if not c:
            problems.append(label)
            raise Stop()

    def fail(m):
        problems.append(m)
        raise Stop()

    try:
        with _env(False):
            trace = run_history(Pp, lambda n, lo, hi: int(w.get(n, lo)), int(w.get('counter', 0)), check, fail, False)
    except Stop:
        pass
    except Exception as e:  # noqa
        problems.append(f'{type(e).__name__}: {e}')
    steps = []
    prepared = False
    for i in range(Pp['steps']):
        opts = [0, 1, 2, 6, 8] + ([3, 4, 5, 9] if prepared else [7])
        a = opts[min(int(w.get(f'step{i}', 0)), len(opts) - 1)]
        steps.append(STEPS[a])
        if a in (0, 1):
            prepared = True
        elif a in (2, 4):
            prepared = False
    return {'ok': not problems, 'observed': problems[:3], 'history': steps, 'trace_completed': trace}


def obligations(tier):
    q = tier == 'quick'
    obs = []
    plans = [(1, 2, True), (2, 2, True), (3, 2, True), (4, 1, False)] if q else [(1, 3, True), (2, 3, True), (3, 3, True), (4, 2, True), (5, 1, False)]
    for steps, nmax, foreign in plans:
        obs.append(Ob(f'history/steps={steps}', 'bvx', sym_history, conc_history, {'steps': steps, 'nmax': nmax, 'foreign': foreign}, timeout=900 if q else 20000, targets=TARGETS, stubs=STUBS,
                      bounds=f'every history of exactly {steps} steps over the 10-step alphabet; groups of 1..{nmax} transactions; symbolic account counter; initial mempool 0..2 own'
                             + (' + 0..1 foreign operations' if foreign else ' operations')))
    return obs
