"""C15 Big map operations and lazy diffs agree with a layered dictionary model."""
from harness import mbv, mich
from vf.core import Ob

TARGETS = ['pytezos.michelson.types.big_map.BigMapType.get', 'pytezos.michelson.types.big_map.BigMapType.update', 'pytezos.michelson.types.big_map.BigMapType.aggregate_lazy_diff',
           'pytezos.michelson.types.big_map.BigMapType.merge_lazy_diff', 'pytezos.michelson.types.big_map.BigMapType.attach_context/duplicate',
           'pytezos.context.impl.ExecutionContext.register_big_map/get_tmp_big_map_id/get_big_map_diff/get_big_map_value',
           'pytezos.michelson.instructions.struct.GetInstruction/MemInstruction/UpdateInstruction/GetAndUpdateInstruction', 'pytezos.michelson.forge.forge_script_expr']
STUBS = ['node shell -> fake holding the on-chain big_map (which keys exist is chosen by the solver, their values are symbolic)', 'format_stdout -> no-op',
         'str(int)/int(str) -> opaque decimal token']
BOUNDS = {'quick': 'key universe {0,1,2} (nat keys, real Blake2b hashes); every split of the universe into on-chain keys / locally set keys / locally removed keys; values unbounded symbolic ints; '
                   'one operation GET/MEM/UPDATE/GET_AND_UPDATE/DUP with solver-chosen key and symbolic argument from every such state (inductive step), followed by the lazy diff; fresh and existing big_maps',
          'thorough': 'key universe of 4 keys and pair keys'}
OUTSIDE = ['larger key universes', 'big_map copy (action "copy")', 'values that are themselves big_maps']
ASSUMPTIONS = ['state invariant: local entries sorted and distinct, removed keys disjoint from local entries; the replay of every counterexample rebuilds the state by real UPDATE instructions from a clean big_map']

PTR = 7


class _Leaf:
    def __init__(self, fn):
        self.fn = fn

    def __call__(self):
        return self.fn()


class FakeShell:
    """shell.blocks[block_id].context.big_maps[ptr][key_hash]() -> Micheline value or RpcError"""

    def __init__(self, chain):
        self.chain = chain      # key_hash -> micheline value
        outer = self

        class BM:
            def __getitem__(self, ptr):
                class ByHash:
                    def __getitem__(self, key_hash):
                        def get():
                            from pytezos.rpc.errors import RpcError

                            if ptr != PTR or key_hash not in outer.chain:
                                raise RpcError('not found')
                            return outer.chain[key_hash]

                        return _Leaf(get)

                return ByHash()

        class Ctx:
            big_maps = BM()

        class Block:
            context = Ctx()

        class Blocks:
            def __getitem__(self, block_id):
                return Block()

        self.blocks = Blocks()


def universe(P):
    from pytezos.michelson import types as t

    if P.get('keys') == 'pair':
        pt = mich.T('pair nat nat')
        return pt, [pt((t.NatType(a), t.NatType(b))) for a, b in ((0, 0), (0, 1), (1, 0))]
    return t.NatType, [t.NatType(i) for i in range(P.get('nkeys', 3))]


def key_hash(k):
    from pytezos.michelson.forge import forge_script_expr

    return forge_script_expr(k.pack(legacy=True))


def _mk_state(P, choose, value):
    """-> (context, big_map value, model dict idx->value|None, chain dict idx->value)"""
    from pytezos.context.impl import ExecutionContext
    from pytezos.michelson import types as t

    kty, U = universe(P)
    n = len(U)
    fresh = P['fresh']
    chain, local, removed = {}, {}, set()
    for i in range(n):
        # 0: nowhere, 1: on chain only, 2: local value (not on chain), 3: local value over an on-chain one, 4: removed (on chain), 5: removed (not on chain)
        st = choose(f'key{i}', 0, 5)
        if fresh and st in (1, 3, 4):
            st = {1: 0, 3: 2, 4: 5}[st]
        if st in (1, 3, 4):
            chain[i] = value(f'chain{i}')
        if st in (2, 3):
            local[i] = value(f'local{i}')
        if st in (4, 5):
            removed.add(i)
    shell = FakeShell({key_hash(U[i]): _lit(P, v) for i, v in chain.items()})
    ctx = ExecutionContext(shell=shell)
    vty = _vty(P)
    bty = t.BigMapType.create_type(args=[kty, vty])
    bm = bty(items=[(U[i], vty(local[i])) for i in sorted(local)], ptr=None if fresh else PTR, removed_keys=[U[i] for i in sorted(removed)])
    bm.attach_context(ctx)
    model = {}
    for i in range(n):
        model[i] = local[i] if i in local else (None if i in removed else chain.get(i))
    return ctx, bm, model, chain, U


def _vty(P):
    from pytezos.michelson import types as t

    return {'int': t.IntType, 'string': t.StringType, 'bool': t.BoolType}[P.get('val', 'int')]


def _lit(P, v):
    k = P.get('val', 'int')
    if k == 'int':
        return {'int': _dec(v)}
    if k == 'string':
        return {'string': v}
    return {'prim': 'True' if bool(v) else 'False'}


def _dec(v):
    from vf import bvx

    return bvx.DecStr(v) if isinstance(v, (bvx.IntZ, bvx.SymInt)) else str(v)


def _opt_eq(got, exp):
    """got: OptionType, exp: value or None"""
    if exp is None:
        return got.item is None
    return (got.item is not None) and (got.item.value == exp)


def _check_all(P, choose, value, check, fail):
    from pytezos.michelson import types as t

    global PTR
    PTR = P.get('ptr', 7)

    ctx, bm, model, chain, U = _mk_state(P, choose, value)
    k = choose('k', 0, len(U) - 1)
    op = P['op']
    if op == 'GET':
        out = mich.run_instr(mich.I({'prim': 'GET'}), [U[k], bm], ctx)
        check(_opt_eq(out[0], model[k]), 'GET agrees with the layered dictionary')
        post = bm
    elif op == 'MEM':
        out = mich.run_instr(mich.I({'prim': 'MEM'}), [U[k], bm], ctx)
        check(out[0].value == (model[k] is not None), 'MEM agrees with the layered dictionary')
        post = bm
    elif op == 'DUP':
        # the copy made by DUP (and the value left below it) must behave as the same layered dictionary
        out = mich.run_instr(mich.I({'prim': 'DUP'}), [bm], ctx)
        if len(out) != 2:
            fail('DUP did not leave two values')
        for i in range(len(U)):
            g = mich.run_instr(mich.I({'prim': 'GET'}), [U[i], out[1]], ctx)[0]
            check(_opt_eq(g, model[i]), f'GET key {i} on the value below the copy after DUP')
            m_ = mich.run_instr(mich.I({'prim': 'MEM'}), [U[i], out[0]], ctx)[0]
            check(m_.value == (model[i] is not None), f'MEM key {i} on the copy after DUP')
        post = out[0]
    else:
        some = choose('some', 0, 1)
        v = value('newval') if some else None
        arg = mich.some(_vty(P)(v)) if some else mich.none(_vty(P))
        out = mich.run_instr(mich.I({'prim': op}), [U[k], arg, bm], ctx)
        if op == 'GET_AND_UPDATE':
            check(_opt_eq(out[0], model[k]), 'GET_AND_UPDATE returns the previous binding')
            post = out[1]
        else:
            post = out[0]
        model = dict(model)
        model[k] = v
    # observations after the operation: every key of the universe
    for i in range(len(U)):
        g = mich.run_instr(mich.I({'prim': 'GET'}), [U[i], post], ctx)[0]
        check(_opt_eq(g, model[i]), f'GET key {i} after {op}')
    # representation invariant of the post state
    keys = [kk for kk, _ in post.items]
    for a in range(len(keys) - 1):
        check(mbv.conc_cmp(keys[a], keys[a + 1]) < 0, 'local entries sorted and distinct')
    for kk, vv in post.items:
        if vv is None:
            fail('a removed key is stored among the local entries')
    for r in post.removed_keys:
        if any(mbv.conc_cmp(r, kk) == 0 for kk in keys):
            fail('a key is both set and removed')
    if len(post.removed_keys) != len({repr(r) for r in post.removed_keys}):
        fail('a key is removed twice')
    # lazy diff applied to the on-chain contents gives the model
    lazy = []
    res = post.aggregate_lazy_diff(lazy, mode='optimized')
    if len(lazy) != 1 or lazy[0]['kind'] != 'big_map':
        fail(f'unexpected lazy diff {lazy}')
    d = lazy[0]['diff']
    exp_action = 'alloc' if P['fresh'] else 'update'
    if d['action'] != exp_action:
        fail(f'lazy diff action {d["action"]}, expected {exp_action}')
    if not P['fresh'] and lazy[0]['id'] != str(PTR):
        fail('lazy diff carries the wrong big_map id')
    final = {key_hash(U[i]): ('v', chain[i]) for i in chain}
    seen = set()
    for u in d['updates']:
        kh = u['key_hash']
        idx = next((i for i in range(len(U)) if mich.abstract(U[i]) == _abs_key(U, u['key'])), None)
        if idx is None or kh != key_hash(U[idx]):
            fail('diff entry does not carry the script-expression hash of its packed key')
        if kh in seen:
            fail('two diff entries for the same key')
        seen.add(kh)
        if 'value' in u:
            final[kh] = ('m', u['value'])
        else:
            final.pop(kh, None)
    for i in range(len(U)):
        kh = key_hash(U[i])
        if model[i] is None:
            if kh in final:
                fail(f'after applying the diff key {i} still exists')
        else:
            if kh not in final:
                fail(f'after applying the diff key {i} is missing')
            tag, val = final[kh]
            got = val if tag == 'v' else _val_of(P, val)
            check(got == model[i], f'after applying the diff key {i} has the model value')
    if res.ptr is None:
        fail('big_map id lost after aggregate_lazy_diff')


def _abs_key(U, expr):
    kty = type(U[0])
    return mich.abstract(kty.from_micheline_value(expr))


def _val_of(P, m):
    k = P.get('val', 'int')
    if k == 'int':
        return _int_of(m)
    if k == 'string':
        return m['string']
    return m['prim'] == 'True'


def _int_of(m):
    from vf import bvx

    v = m['int']
    if isinstance(v, bvx.DecStr):
        return v.v
    return int(v)


def sym_step(P, ex):
    from vf import bvx

    def choose(name, lo, hi):
        return mbv._choose(ex, name, lo, hi)

    def value(name):
        k = P.get('val', 'int')
        if k == 'int':
            return ex.int(name)
        if k == 'bool':
            return ex.bool(name)
        return mbv.sym_value(ex, mich.T('string'), name, 1).value

    def fail(msg):
        ex.fail_here(msg)

    with mbv.env(forge=False):
        try:
            _check_all(P, choose, value, lambda c, label: ex.check(c, label), fail)
        except mich.Failed as e:
            ex.fail_here(f'instruction failed: {e}')
        except (bvx.Abort, bvx.Found, bvx.Inconclusive):
            raise
        ex.check(True)


def conc_step(P, w):
    """Replay: the state is rebuilt from a clean big_map by real UPDATE instructions (checks reachability of the invariant), then the same checks run concretely."""
    from pytezos.context.impl import ExecutionContext
    from pytezos.michelson import types as t

    w = dict(w)
    problems = []

    def choose(name, lo, hi):
        return int(w.get(name, lo))

    def value(name):
        k = P.get('val', 'int')
        if k == 'int':
            return int(w.get(name, 0))
        if k == 'bool':
            return bool(w.get(name, False))
        return bytes(w.get(name, b'')).decode() if int(w.get(name + '#len', 0)) else ''

    class Stop(Exception):
        pass

    def check(c, label):
        if not c:
            problems.append(label)
            raise Stop()

    def fail(msg):
        problems.append(msg)
        raise Stop()

    # 1. same checks on the directly constructed state
    try:
        _check_all(P, choose, value, check, fail)
    except Stop:
        pass
    except Exception as e:  # noqa
        problems.append(f'{type(e).__name__}: {e}')
    # 2. reachability: build the same state by instructions and compare the local representation
    try:
        ctx0, bm0, model, chain, U = _mk_state(P, choose, value)
        shell = FakeShell({key_hash(U[i]): _lit(P, v) for i, v in chain.items()})
        ctx = ExecutionContext(shell=shell)
        bty = t.BigMapType.create_type(args=[type(U[0]), _vty(P)])
        bm = bty(items=[], ptr=None if P['fresh'] else PTR)
        bm.attach_context(ctx)
        for r in bm0.removed_keys:
            bm = mich.run_instr(mich.I({'prim': 'UPDATE'}), [r, mich.some(_vty(P).dummy(None) if P.get('val', 'int') != 'bool' else _vty(P)(False)), bm], ctx)[0]
            bm = mich.run_instr(mich.I({'prim': 'UPDATE'}), [r, mich.none(_vty(P)), bm], ctx)[0]
        for kk, vv in bm0.items:
            bm = mich.run_instr(mich.I({'prim': 'UPDATE'}), [kk, mich.some(vv), bm], ctx)[0]
        for i in range(len(U)):
            g = mich.run_instr(mich.I({'prim': 'GET'}), [U[i], bm], ctx)[0]
            if not _opt_eq(g, model[i]):
                problems.append(f'state built by UPDATE instructions: GET key {i} gives {g!r}, model {model[i]!r}')
    except Exception as e:  # noqa
        problems.append(f'building the state by instructions failed: {type(e).__name__}: {e}')
    return {'ok': not problems, 'observed': problems[:4]}


def obligations(tier):
    q = tier == 'quick'
    t = 300 if q else 1800
    obs = []
    for fresh in (False, True):
        for op in ('GET', 'MEM', 'UPDATE', 'GET_AND_UPDATE'):
            for keys in (['nat'] if q else ['nat', 'pair']):
                P = {'op': op, 'fresh': fresh, 'nkeys': 3 if (q or keys == 'pair') else 4, 'keys': keys}
                obs.append(Ob(f'{"fresh" if fresh else "existing"}/{op}/{keys}', 'bvx', sym_step, conc_step, P, timeout=t,
                              bounds=f'every state over {P["nkeys"]} keys (6 situations per key), solver-chosen key, symbolic values; then the lazy diff', targets=TARGETS))
        P = {'op': 'DUP', 'fresh': fresh, 'nkeys': 3, 'keys': 'nat'}
        obs.append(Ob(f'{"fresh" if fresh else "existing"}/DUP/nat', 'bvx', sym_step, conc_step, P, timeout=t,
                      bounds='every state over 3 keys (6 situations per key); DUP, then every key observed on both values and the lazy diff of the copy', targets=TARGETS))
        if not fresh:
            # the first big_map allocated on a chain has id 0
            for op in ('GET', 'MEM', 'UPDATE', 'GET_AND_UPDATE'):
                P = {'op': op, 'fresh': False, 'nkeys': 2, 'keys': 'nat', 'ptr': 0}
                obs.append(Ob(f'existing/{op}/nat/big_map-id=0', 'bvx', sym_step, conc_step, P, timeout=t,
                              bounds='on-chain big_map with id 0: every state over 2 keys, solver-chosen key, symbolic values; then the lazy diff', targets=TARGETS))
        for val in ('string', 'bool'):
            P = {'op': 'UPDATE', 'fresh': fresh, 'nkeys': 2, 'keys': 'nat', 'val': val}
            obs.append(Ob(f'{"fresh" if fresh else "existing"}/UPDATE/nat->{val}', 'bvx', sym_step, conc_step, P, timeout=t,
                          bounds=f'2 keys, {val} values (including values that are falsy in Python), then the lazy diff', targets=TARGETS))
    return obs
