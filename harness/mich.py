"""Shared helpers for the Michelson harnesses (engine independent: values may be plain, CrossHair
symbolic or bvx proxies)."""
from __future__ import annotations

from typing import Any, List


def T(expr):
    """Michelson type class from a Micheline type expression or a short text like 'pair int nat'."""
    from pytezos.michelson.types.base import MichelsonType

    if isinstance(expr, str):
        expr = texpr(expr)
    return MichelsonType.match(expr)


def texpr(s: str):
    """Tiny s-expression reader for types: 'map (pair int int) nat' -> Micheline JSON. Annotations allowed."""
    toks = s.replace('(', ' ( ').replace(')', ' ) ').split()
    pos = 0

    def parse_seq(stop):
        nonlocal pos
        items = []
        while pos < len(toks) and toks[pos] != stop:
            if toks[pos] == '(':
                pos += 1
                items.append(parse_seq(')'))
                pos += 1
            else:
                items.append(toks[pos])
                pos += 1
        # items[0] is the prim; annotations start with % or :
        prim = items[0]
        annots = [i for i in items[1:] if isinstance(i, str) and i[0] in '%:@']
        args = [i for i in items[1:] if not (isinstance(i, str) and i[0] in '%:@')]
        e = {'prim': prim}
        if annots:
            e['annots'] = annots
        if args:
            e['args'] = [a if isinstance(a, dict) else {'prim': a} for a in args]
        return e

    r = parse_seq(None)
    return r


def I(expr):
    """Instruction class from Micheline JSON."""
    from pytezos.michelson.instructions.base import MichelsonInstruction

    return MichelsonInstruction.match(expr)


def prim(name, *args, annots=None):
    e = {'prim': name}
    if args:
        e['args'] = list(args)
    if annots:
        e['annots'] = list(annots)
    return e


def mk(tname: str, value):
    """Construct a value of a simple type directly from a (possibly symbolic) Python value."""
    from pytezos.michelson import types as t

    cls = {'int': t.IntType, 'nat': t.NatType, 'mutez': t.MutezType, 'timestamp': t.TimestampType,
           'string': t.StringType, 'bytes': t.BytesType, 'bool': t.BoolType}[tname]
    return cls(value)


def unit():
    from pytezos.michelson import types as t

    return t.UnitType()


def pair(*items):
    from pytezos.michelson.types import PairType

    return PairType.from_comb(list(items))


def some(v):
    from pytezos.michelson.types import OptionType

    return OptionType.from_some(v)


def none(ty):
    from pytezos.michelson.types import OptionType

    return OptionType.none(ty)


def left(v, rty):
    from pytezos.michelson.types import OrType

    return OrType.from_left(v, rty)


def right(v, lty):
    from pytezos.michelson.types import OrType

    return OrType.from_right(v, lty)


def type_expr(v) -> Any:
    """Type of a runtime value as Micheline, annotations stripped."""
    return strip_annots(type(v).as_micheline_expr())


def strip_annots(e):
    if isinstance(e, list):
        return [strip_annots(x) for x in e]
    if isinstance(e, dict):
        out = {k: strip_annots(v) for k, v in e.items() if k != 'annots'}
        return out
    return e


def abstract(v) -> Any:
    """Structural abstraction of a Michelson value: nested tuples of (tag, payload) with raw (possibly symbolic) leaves."""
    from pytezos.michelson import types as t
    from pytezos.michelson.types.base import MichelsonType

    if v is None:
        return ('null',)
    if isinstance(v, t.BoolType):
        return ('bool', v.value)
    if isinstance(v, t.IntType):          # int nat mutez timestamp
        return (v.prim, v.value)
    if isinstance(v, t.StringType):       # string address key ...
        return (v.prim, v.value)
    if isinstance(v, t.BytesType):
        return (v.prim, v.value)
    if isinstance(v, t.UnitType):
        return ('unit',)
    if isinstance(v, t.PairType):
        return ('pair',) + tuple(abstract(i) for i in v.items)
    if isinstance(v, t.OptionType):
        return ('none',) if v.item is None else ('some', abstract(v.item))
    if isinstance(v, t.OrType):
        return ('left', abstract(v.items[0])) if v.items[1] is None or _undef(v.items[1]) else ('right', abstract(v.items[1]))
    if isinstance(v, t.ListType):
        return ('list',) + tuple(abstract(i) for i in v.items)
    if isinstance(v, t.SetType):
        return ('set',) + tuple(abstract(i) for i in v.items)
    if isinstance(v, t.MapType):
        return ('map',) + tuple((abstract(k), abstract(x)) for k, x in v.items)
    if isinstance(v, t.TicketType):
        return ('ticket', v.ticketer, abstract(v.item), v.amount)
    if isinstance(v, t.LambdaType):
        return ('lambda', repr(v.value.as_micheline_expr()) if hasattr(v.value, 'as_micheline_expr') else repr(v.value))
    if isinstance(v, MichelsonType):
        return (v.prim, repr(v.__dict__))
    return ('raw', v)


def _undef(x):
    from pytezos.michelson.types.base import undefined

    return isinstance(x, undefined)


def deq(a, b):
    """Deep equality over abstractions; returns a (possibly symbolic) truth value without short-circuit loss."""
    if isinstance(a, tuple) and isinstance(b, tuple):
        if len(a) != len(b):
            return False
        r = True
        for x, y in zip(a, b):
            c = deq(x, y)
            r = _and(r, c)
            if r is False:
                return False
        return r
    if isinstance(a, tuple) or isinstance(b, tuple):
        return False
    return a == b


def _and(a, b):
    if a is True:
        return b
    if b is True:
        return a
    if a is False or b is False:
        return False
    try:
        from vf import bvx

        if isinstance(a, bvx.SymBool) or isinstance(b, bvx.SymBool):
            return bvx.sym_and(a, b)
    except Exception:
        pass
    return a and b


class Failed(Exception):
    """The instruction / program failed (any exception of the interpreter)."""


def run_instr(instr, items: List[Any], context=None):
    """Execute one instruction class on a stack given top-first; returns the resulting stack (top-first) or raises Failed."""
    from pytezos.michelson.stack import MichelsonStack

    stack = MichelsonStack(list(items))
    stdout: List[str] = []
    try:
        instr.execute(stack, stdout, context)
    except Exception as e:  # noqa: any interpreter exception is a Michelson failure
        debug_failed(e)
        raise Failed(f"{type(e).__name__}: {e.args}") from e
    return stack.items


def run_seq(instrs, items: List[Any], context=None):
    from pytezos.michelson.stack import MichelsonStack

    stack = MichelsonStack(list(items))
    stdout: List[str] = []
    try:
        for ins in instrs:
            ins.execute(stack, stdout, context)
    except Exception as e:  # noqa
        debug_failed(e)
        raise Failed(f"{type(e).__name__}: {e.args}") from e
    return stack.items


def debug_failed(e):
    import os
    import traceback

    if os.environ.get('VF_DEBUG'):
        traceback.print_exception(e)
