"""C32 View definitions are accepted exactly when Tezos accepts them."""
from harness import mbv
from vf.core import Ob

TARGETS = ['pytezos.michelson.sections.view.ViewSection.match', 'pytezos.michelson.sections.view.ViewSection.create_type',
           'pytezos.michelson.sections.view.ViewSection.check_code']
STUBS = []
BOUNDS = {'quick': 'names: length 0..40 (symbolic), one solver-chosen character (7 allowed classes + 8 forbidden characters) at the first/middle/last position; '
                   'code: a restricted instruction under <= 2 nested wrappers out of 13 (sequence, DIP, IF branches, MAP/LOOP bodies, LAMBDA, LAMBDA_REC, lambda literals pushed directly and nested 1..2 levels inside option/list/map/or/comb literals) '
                   'with solver-chosen siblings before/after at each level',
          'thorough': 'same as quick (a third wrapper level is outside the time budget)'}
OUTSIDE = ['code trees outside the wrapper/sibling grammar', 'names with more than one unusual character']
ASSUMPTIONS = ['rejection rule exactly as stated by the property (name > 31 chars or char outside [A-Za-z0-9_.%@]; SELF anywhere; TRANSFER_TOKENS/CREATE_CONTRACT/SET_DELEGATE outside LAMBDA/LAMBDA_REC/pushed lambda)']

CHARS = [chr(i) for i in range(256)]          # every Latin-1 character
LENGTHS = [0, 1, 2, 3, 16, 30, 31, 32, 33, 40]
ALLOWED = set('abcdefghijklmnopqrstuvwxyzABCDEFGHIJKLMNOPQRSTUVWXYZ0123456789_.%@')
LEAVES = ['DROP', 'SELF', 'TRANSFER_TOKENS', 'CREATE_CONTRACT', 'SET_DELEGATE']
RESTRICTED = ('TRANSFER_TOKENS', 'CREATE_CONTRACT', 'SET_DELEGATE')
WRAPPERS = ['SEQ', 'DIP', 'IF-then', 'IF-else', 'MAP', 'LOOP', 'LAMBDA', 'LAMBDA_REC', 'PUSH-lambda', 'PUSH-option-lambda', 'PUSH-list-option-lambda', 'PUSH-map-or-lambda',
            'PUSH-comb3-lambda']
LAMBDA_WRAPPERS = ('LAMBDA', 'LAMBDA_REC', 'PUSH-lambda', 'PUSH-option-lambda', 'PUSH-list-option-lambda', 'PUSH-map-or-lambda', 'PUSH-comb3-lambda')
SIB_BEFORE = [None, 'LAMBDA{DROP}', 'PUSH-lambda{DROP}']
SIB_AFTER = [None, 'DROP', 'SET_DELEGATE']
UNIT = {'prim': 'unit'}


def leaf(op):
    if op == 'CREATE_CONTRACT':
        return {'prim': 'CREATE_CONTRACT', 'args': [[{'prim': 'parameter', 'args': [UNIT]}, {'prim': 'storage', 'args': [UNIT]},
                                                     {'prim': 'code', 'args': [[{'prim': 'CDR'}, {'prim': 'NIL', 'args': [{'prim': 'operation'}]}, {'prim': 'PAIR'}]]}]]}
    return {'prim': op}


def wrap(w, body):
    if w == 'SEQ':
        return body
    if w == 'DIP':
        return {'prim': 'DIP', 'args': [body]}
    if w == 'IF-then':
        return {'prim': 'IF', 'args': [body, []]}
    if w == 'IF-else':
        return {'prim': 'IF', 'args': [[], body]}
    if w == 'MAP':
        return {'prim': 'MAP', 'args': [body]}
    if w == 'LOOP':
        return {'prim': 'LOOP', 'args': [body]}
    if w == 'LAMBDA':
        return {'prim': 'LAMBDA', 'args': [UNIT, UNIT, body]}
    if w == 'LAMBDA_REC':
        return {'prim': 'LAMBDA_REC', 'args': [UNIT, UNIT, body]}
    LT = {'prim': 'lambda', 'args': [UNIT, UNIT]}
    NAT = {'prim': 'nat'}
    if w == 'PUSH-lambda':
        return {'prim': 'PUSH', 'args': [LT, body]}
    if w == 'PUSH-option-lambda':
        return {'prim': 'PUSH', 'args': [{'prim': 'option', 'args': [LT]}, {'prim': 'Some', 'args': [body]}]}
    if w == 'PUSH-list-option-lambda':
        return {'prim': 'PUSH', 'args': [{'prim': 'list', 'args': [{'prim': 'option', 'args': [LT]}]}, [{'prim': 'Some', 'args': [body]}]]}
    if w == 'PUSH-map-or-lambda':
        return {'prim': 'PUSH', 'args': [{'prim': 'map', 'args': [NAT, {'prim': 'or', 'args': [NAT, LT]}]}, [{'prim': 'Elt', 'args': [{'int': '0'}, {'prim': 'Right', 'args': [body]}]}]]}
    if w == 'PUSH-comb3-lambda':
        return {'prim': 'PUSH', 'args': [{'prim': 'pair', 'args': [NAT, NAT, LT]}, {'prim': 'Pair', 'args': [{'int': '0'}, {'int': '0'}, body]}]}
    raise KeyError(w)


def sib(s):
    if s is None:
        return []
    if s == 'LAMBDA{DROP}':
        return [wrap('LAMBDA', [{'prim': 'DROP'}]), {'prim': 'DROP'}]
    if s == 'PUSH-lambda{DROP}':
        return [wrap('PUSH-lambda', [{'prim': 'DROP'}]), {'prim': 'DROP'}]
    return [leaf(s)]


def build_code(op, levels):
    """levels: outermost first, each (wrapper, sibling before, sibling after)."""
    body = [leaf(op)]
    for w, sb, sa in reversed(levels):
        body = sib(sb) + [wrap(w, body)] + sib(sa)
    return body


def expected_code_reject(op, levels):
    in_lambda = False
    reject = op == 'SELF'
    # siblings after a wrapper at level i sit outside that wrapper but inside all outer ones
    outer_lambda = False
    for w, sb, sa in levels:
        if sa in RESTRICTED and not outer_lambda:
            reject = True
        if w in LAMBDA_WRAPPERS:
            outer_lambda = True
    in_lambda = outer_lambda
    if op in RESTRICTED and not in_lambda:
        reject = True
    return reject


def run_view(name, code):
    from pytezos.michelson.sections.view import ViewSection

    expr = {'prim': 'view', 'args': [{'string': name}, UNIT, UNIT, code]}
    try:
        ViewSection.match(expr)
        return 'accepted'
    except Exception as e:  # noqa
        return f'rejected: {e.args[:3]}'


def run_view_twice(name1, code1, name2, code2):
    """One expression object matched, edited in place (name and code replaced), matched again: the verdict is that of the edited definition."""
    from pytezos.michelson.sections.view import ViewSection

    expr = {'prim': 'view', 'args': [{'string': name1}, UNIT, UNIT, code1]}
    try:
        ViewSection.match(expr)
    except Exception:  # noqa
        pass
    expr['args'][0]['string'] = name2
    expr['args'][3] = code2
    try:
        ViewSection.match(expr)
        return 'accepted'
    except Exception as e:  # noqa
        return f'rejected: {e.args[:3]}'


def via_interface(name, code):
    """The same definition inside a whole script loaded through ContractInterface.from_micheline."""
    from pytezos.contract.interface import ContractInterface

    script = [{'prim': 'parameter', 'args': [UNIT]}, {'prim': 'storage', 'args': [UNIT]},
              {'prim': 'code', 'args': [[{'prim': 'CDR'}, {'prim': 'NIL', 'args': [{'prim': 'operation'}]}, {'prim': 'PAIR'}]]},
              {'prim': 'view', 'args': [{'string': name}, UNIT, UNIT, code]}]
    try:
        ContractInterface.from_micheline(script)
        return 'accepted'
    except Exception as e:  # noqa
        return f'rejected: {type(e).__name__}: {str(e)[:80]}'


RESERVED_BY_INTERFACE = ('default', 'storage', 'parameter', 'views', 'using', 'context', 'program', 'entrypoints', 'script', 'originate', 'address', 'shell', 'key')


def _decode_code(P, get):
    op = LEAVES[get('op', len(LEAVES))]
    k = get('depth', P['depth'] + 1)
    levels = []
    for i in range(k):
        levels.append((WRAPPERS[get(f'w{i}', len(WRAPPERS))], SIB_BEFORE[get(f'sb{i}', len(SIB_BEFORE))], SIB_AFTER[get(f'sa{i}', len(SIB_AFTER))]))
    return op, levels


def sym_code(P, ex):
    def get(name, n):
        if name == 'op' and 'op' in P:
            return P['op']
        if name == 'w0' and 'w0' in P:
            return P['w0']
        return mbv._choose(ex, name, 0, n - 1)

    op, levels = _decode_code(P, get)
    code = build_code(op, levels)
    got = run_view('v', code)
    exp = expected_code_reject(op, levels)
    if (got != 'accepted') != exp:
        ex.fail_here(f'view code {"rejected" if got != "accepted" else "accepted"}, Tezos rule says {"reject" if exp else "accept"}: {got}')
    ex.check(True)


def conc_code(P, w):
    def get(name, n):
        if name == 'op' and 'op' in P:
            return P['op']
        if name == 'w0' and 'w0' in P:
            return P['w0']
        return int(w.get(name, 0))

    op, levels = _decode_code(P, get)
    code = build_code(op, levels)
    got = run_view('v', code)
    exp = expected_code_reject(op, levels)
    return {'ok': (got != 'accepted') == exp, 'code': code, 'observed': got, 'expected': 'rejected' if exp else 'accepted'}


def _name(n, pos, ch):
    s = ['a'] * n
    if n:
        p = {0: 0, 1: n // 2, 2: n - 1}[pos]
        s[p] = CHARS[ch]
    return ''.join(s)


def sym_name(P, ex):
    n = LENGTHS[mbv._choose(ex, 'n', 0, len(LENGTHS) - 1)]
    pos = mbv._choose(ex, 'pos', 0, 2)
    ch = mbv._choose(ex, 'ch', 0, len(CHARS) - 1)
    r = conc_name(dict(P, raw_n=True), {'n': n, 'pos': pos, 'ch': ch})
    if not r['ok']:
        ex.fail_here(f'view name {r["name"]!r} {r["observed"]}, expected {r["expected"]}')
    ex.check(True)


def conc_name(P, w):
    n = int(w['n'])
    name = _name(LENGTHS[n] if n < len(LENGTHS) and not P.get('raw_n') else n, int(w['pos']), int(w['ch']))
    exp_reject = len(name) > 31 or any(c not in ALLOWED for c in name)
    got = run_view(name, [{'prim': 'DROP'}, {'prim': 'UNIT'}])
    ok = (got != 'accepted') == exp_reject
    if ok:
        # the same verdict when the expression object was matched before with another (valid) definition and then edited in place
        again = run_view_twice('ok', [{'prim': 'DROP'}, {'prim': 'UNIT'}], name, [{'prim': 'DROP'}, {'prim': 'UNIT'}])
        if (again != 'accepted') != exp_reject:
            return {'ok': False, 'name': name, 'observed': again + ' (second match of an expression edited in place)', 'expected': 'rejected' if exp_reject else 'accepted'}
    if ok and not exp_reject and name and name not in RESERVED_BY_INTERFACE:
        wi = via_interface(name, [{'prim': 'DROP'}, {'prim': 'UNIT'}])
        if wi != 'accepted':
            return {'ok': False, 'name': name, 'observed': wi + ' (through ContractInterface.from_micheline)', 'expected': 'accepted'}
    return {'ok': ok, 'name': name, 'observed': got, 'expected': 'rejected' if exp_reject else 'accepted'}


def obligations(tier):
    q = tier == 'quick'
    depth = 2       # a third level multiplies the path tree by ~120 (13 wrappers x 9 sibling pairs): not reachable in the thorough budget
    obs = [Ob('name', 'bvx', sym_name, conc_name, timeout=300, opts={'W': 16},
              bounds='lengths 0,1,2,3,16,30..33,40; one character at the first/middle/last position ranges over all 256 Latin-1 characters, the others are letters', targets=TARGETS)]
    for op in range(len(LEAVES)):
        for w0 in range(len(WRAPPERS)):
            obs.append(Ob(f'code/{LEAVES[op]}/outer={WRAPPERS[w0]}', 'bvx', sym_code, conc_code, {'op': op, 'w0': w0, 'depth': depth}, timeout=300 if q else 1800,
                          opts={'W': 16}, bounds=f'{LEAVES[op]} under 0..{depth} wrappers (outermost {WRAPPERS[w0]}), siblings chosen by the solver', targets=TARGETS))
    return obs
