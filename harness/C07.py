"""C07 Signing and verification are correct for every key kind -- plumbing only (ideal primitives)."""
from harness import cryptostub
from vf.core import Ob

TARGETS = ['pytezos.crypto.key.Key.sign', 'pytezos.crypto.key.Key.verify', 'pytezos.crypto.key.Key.from_secret_exponent', 'pytezos.crypto.key.Key.from_encoded_key (public keys)',
           'pytezos.crypto.key.Key.public_key', 'pytezos.crypto.key.blake2b_32', 'pytezos.crypto.encoding.scrub_input/base58_encode/base58_decode',
           'pytezos.michelson.instructions.crypto.CheckSignatureInstruction.execute']
BOUNDS = {'quick': 'every curve (ed, sp, p2, BL) x {curve-specific, generic} x message given as bytes, as an opaque hex rendering, or as real text of symbolic hex digits (lower/upper case, with and without 0x); symbolic 32-byte secret, symbolic message of 0..3 bytes; alterations: any other message of the '
                   'same length, any other signature of the same kind, any other public key, a signature of another curve',
          'thorough': 'messages up to 6 bytes'}
OUTSIDE = ['that the curve primitives compute valid signatures and that an independent implementation accepts them (C libraries and 381-bit field arithmetic cannot be encoded): the primitives are ideal stand-ins',
           'text messages that are not hex strings (ASCII fallback of scrub_input is exercised with concrete text only in the replay)']
ASSUMPTIONS = ['plumbing claim: sign() hands the primitive of the key curve the message form the scheme prescribes (Ed25519: Blake2b-256 digest; Secp256k1/P-256: message with Blake2b-256 as hash function; '
               'BLS: the message itself) and the key material it was created from, encodes exactly the primitive output under the prefix of the requested form, verify() hands the verification primitive the '
               'same message form, the decoded signature and the public key, and CHECK_SIGNATURE returns the same verdict']

CURVES = {'ed': b'ed', 'sp': b'sp', 'p2': b'p2', 'BL': b'BL'}
W = 272


def _mk_key(K, ex, curve, name='secret'):
    secret = ex.bytes(name, 32)
    return secret, K.Key.from_secret_exponent(secret, curve=CURVES[curve])


def _message(ex, P, name='msg'):
    from vf import bvx

    m = ex.bytes(name, P['n'])
    if not isinstance(m, bvx.SymBytes):
        m = bvx.SymBytes(list(m))
    if P['form'] in ('hextext', '0xhextext'):
        # the message as real text: two symbolic hex digits per byte (case chosen by the solver), optionally behind '0x'
        import z3

        up = ex.bool(name + ':uppercase')
        chars = list(b'0x') if P['form'] == '0xhextext' else []
        for it in m.items:
            v = bvx.bv(it)
            for nib in (z3.LShR(v, 4) & 15, v & 15):
                chars.append(bvx.SymInt(z3.If(z3.ULT(nib, 10), nib + 48, z3.If(up.e, nib + 55, nib + 87))))
        return m, bvx.SymStr(bvx.SymBytes(chars))
    return m, (bvx.SymHex(m) if P['form'] == 'hex' else m)


def _expect_sign_input(ex, c, K, curve, secret, m):
    """The signing primitive received the prescribed message form and the key material."""
    from vf import bvx

    if curve == 'ed':
        call = c.last('ed25519.sign')
        ex.check(call is not None and c.count('ed25519.sign') == 1, 'Ed25519 primitive called once')
        d = call[1]['message']
        org = getattr(d, 'origin', None)
        ex.check(org is not None and org[0] == 'blake2b-256' and len(org[1][1]) == 0, 'Ed25519 signs an unkeyed Blake2b-256 digest')
        ex.check(len(org[1][0]) == len(m) and (org[1][0] == m), 'the digest is taken over the message')
        ex.check(call[1]['sk'][:32] == secret, 'signed with the secret key of this Key')
    elif curve == 'sp':
        call = c.last('secp256k1.sign')
        ex.check(call is not None and c.count('secp256k1.sign') == 1, 'Secp256k1 primitive called once')
        ex.check(len(call[1]['message']) == len(m) and (call[1]['message'] == m), 'Secp256k1 signs the message')
        org = getattr(call[1]['digest'], 'origin', None)
        ex.check(org is not None and org[0] == 'blake2b-256' and len(org[1][0]) == len(m) and (org[1][0] == m), 'hasher is Blake2b-256 of the message')
        ex.check(call[1]['secret'] == secret, 'signed with the secret key of this Key')
    elif curve == 'p2':
        call = c.last('p256.sign')
        ex.check(call is not None and c.count('p256.sign') == 1, 'P-256 primitive called once')
        ex.check(len(call[1]['message']) == len(m) and (call[1]['message'] == m), 'P-256 signs the message')
        ex.check(call[1]['hashfunc'] is K.blake2b_32, 'hash function is Blake2b-256')
        ex.check(call[1]['d'] == bvx._Int.from_bytes(secret, 'big'), 'signed with the secret exponent of this Key')
    else:
        call = c.last('bls.sign')
        ex.check(call is not None and c.count('bls.sign') == 1, 'BLS primitive called once')
        ex.check(len(call[1]['message']) == len(m) and (call[1]['message'] == m), 'BLS signs the message itself')
        ex.check(call[1]['sk'] == bvx._Int.from_bytes(secret, 'little'), 'signed with the secret exponent of this Key')
    return call


def _sig_bytes(call, curve):
    from vf import bvx

    if curve == 'p2':
        r, s = call[2]
        return r.to_bytes(32, 'big') + s.to_bytes(32, 'big')
    return call[2] if isinstance(call[2], bvx.SymBytes) else bvx.SymBytes(list(call[2]))


def _expected_prefix(curve, generic):
    return b'sig' if (generic and curve != 'BL') else CURVES[curve] + b'sig'


def _verdict(fn):
    try:
        return bool(fn())
    except ValueError:
        return False


def _check_signature(K, pk_text, sig_text, m):
    """CHECK_SIGNATURE on the stack [key, signature, bytes] -> Python bool"""
    import pytezos.michelson.instructions.crypto as IC
    from pytezos.context.impl import ExecutionContext
    from pytezos.michelson.stack import MichelsonStack
    from pytezos.michelson.types import BytesType, KeyType, SignatureType
    from vf import bvx

    stack = MichelsonStack()
    stack.push(BytesType.from_value(m))
    stack.push(SignatureType.from_value(sig_text))
    stack.push(KeyType.from_value(pk_text))
    with bvx.shadowed(IC), bvx.silenced():
        IC.CheckSignatureInstruction.execute(stack, [], ExecutionContext())
    return bool(stack.items[0].value) if hasattr(stack.items[0], 'value') else bool(stack.items[0])


def sym_sign(P, ex):
    import pytezos.crypto.key as K

    curve, generic = P['curve'], P['generic']
    with cryptostub.env(ex) as (c, b):
        secret, key = _mk_key(K, ex, curve)
        m, message = _message(ex, P)
        text = key.sign(message, generic=generic)
        call = _expect_sign_input(ex, c, K, curve, secret, m)
        sig = _sig_bytes(call, curve)
        ex.check(text in b.rep, 'sign() returns a base58 text')
        (h, L, Pfx, n), payload = b.rep[text]
        ex.check(h == _expected_prefix(curve, generic), f'signature carries the prefix {_expected_prefix(curve, generic)!r}')
        ex.check(len(payload) == len(sig) and (payload == sig), 'the encoded payload is the primitive output')
        # verification with the same key, with a public-only copy of it, and through CHECK_SIGNATURE
        ex.check(_verdict(lambda: key.verify(text, message)), 'the signature verifies under the signing key')
        pub = K.Key.from_encoded_key(key.public_key())
        ex.check(pub.secret_exponent is None and _verdict(lambda: pub.verify(text, message)), 'the signature verifies under the exported public key')
        if P.get('instruction', True):
            ex.check(_check_signature(K, key.public_key(), text, m), 'CHECK_SIGNATURE accepts it')


def sym_reject(P, ex):
    import pytezos.crypto.key as K
    from vf import bvx

    curve, generic, what = P['curve'], P['generic'], P['alter']
    with cryptostub.env(ex) as (c, b):
        secret, key = _mk_key(K, ex, curve)
        m, message = _message(ex, P)
        text = key.sign(message, generic=generic)
        (h, L, Pfx, n), payload = b.rep[text]
        pk_text = key.public_key()
        # the genuine triple is verified first (a verifier that remembers it must still reject everything else)
        ex.check(_verdict(lambda: key.verify(text, message)), 'the genuine signature verifies')
        vkey, vtext, vm, vmessage = key, text, m, message
        if what == 'message':
            vm, vmessage = _message(ex, P, 'other_msg')
            ex.assume(vm != m)
        elif what == 'signature':
            other = ex.bytes('other_sig', len(payload))
            ex.assume(other != payload)
            vtext = b.other(h.decode(), other, n)
        elif what == 'key':
            secret2, vkey = _mk_key(K, ex, curve, 'other_secret')
            ex.assume(vkey.public_point != key.public_point)
            pk_text = b.other(CURVES[curve].decode() + 'pk', vkey.public_point)
        elif what == 'curve':
            oc = P['other_curve']
            secret2, vkey = _mk_key(K, ex, oc, 'other_secret')
            pk_text = vkey.public_key()
        ok = _verdict(lambda: vkey.verify(vtext, vmessage))
        ex.check(not ok, f'verify() rejects an altered {what}')
        ex.check(not _check_signature(K, pk_text, vtext, vm), f'CHECK_SIGNATURE rejects an altered {what}')
        del bvx


ORDERS = {'sp': 0xFFFFFFFFFFFFFFFFFFFFFFFFFFFFFFFEBAAEDCE6AF48A03BBFD25E8CD0364141, 'p2': 0xFFFFFFFF00000000FFFFFFFFFFFFFFFFBCE6FAADA7179E84F3B9CAC2FC632551,
          'BL': 52435875175126190479447740508185965837690552500527637822603658699938581184513}


def real_secret(curve, raw, salt=1):
    """A valid secret of the curve derived from witness bytes (the witness ranges over all 32-byte strings; the libraries accept scalars in [1, order))."""
    raw = bytes(raw or b'')[:32].rjust(32, b'\x00')
    if curve == 'ed':
        return raw
    order = ORDERS[curve]
    v = int.from_bytes(raw, 'little' if curve == 'BL' else 'big') % order or salt
    return v.to_bytes(32, 'little' if curve == 'BL' else 'big')


def _check_signature_real(pk_text, sig_text, m):
    from pytezos.context.impl import ExecutionContext
    from pytezos.michelson.instructions.crypto import CheckSignatureInstruction
    from pytezos.michelson.stack import MichelsonStack
    from pytezos.michelson.types import BytesType, KeyType, SignatureType

    stack = MichelsonStack()
    stack.push(BytesType.from_value(m))
    stack.push(SignatureType.from_value(sig_text))
    stack.push(KeyType.from_value(pk_text))
    CheckSignatureInstruction.execute(stack, [], ExecutionContext())
    return bool(stack.items[0])


def conc_sign(P, w):
    res = _conc_sign(P, w)
    if res['ok'] and P['curve'] == 'p2' and not P.get('alter'):
        # the witness constrains the primitive output (r, s); real ECDSA output cannot be chosen, so other keys are tried until one signature has that shape
        base = int.from_bytes(real_secret('p2', w.get('secret')), 'big')
        for i in range(1, 1500):
            w2 = dict(w, secret=((base + i) % ORDERS['p2'] or 1).to_bytes(32, 'big'))
            r2 = _conc_sign(P, w2)
            if not r2['ok']:
                return dict(r2, note=f'reproduced with secret + {i}', secret={'hex': w2['secret'].hex()})
    return res


def _conc_sign(P, w):
    """Replay with the real libraries: sign, verify, alter, CHECK_SIGNATURE."""
    from pytezos.crypto.encoding import base58_decode, base58_encode
    from pytezos.crypto.key import Key

    curve, generic = P['curve'], P['generic']
    secret = real_secret(curve, w.get('secret'))
    m = bytes(w.get('msg', b''))[:P['n']].ljust(P['n'], b'\x00')
    up = bool(w.get('msg:uppercase', False))
    form = {'hex': lambda x: x.hex(), 'bytes': lambda x: x, 'hextext': lambda x: x.hex().upper() if up else x.hex(),
            '0xhextext': lambda x: '0x' + (x.hex().upper() if up else x.hex())}[P['form']]
    problems = []
    try:
        key = Key.from_secret_exponent(secret, curve=CURVES[curve])
        text = key.sign(form(m), generic=generic)
        exp = _expected_prefix(curve, generic).decode()
        if not text.startswith(exp):
            problems.append(f'signature {text[:6]}.. does not carry the prefix {exp}')
        what = P.get('alter')
        if not what:
            if not key.verify(text, form(m)):
                problems.append('verify returned False')
            if not Key.from_encoded_key(key.public_key()).verify(text, form(m)):
                problems.append('verify under the exported public key returned False')
            if not _check_signature_real(key.public_key(), text, m):
                problems.append('CHECK_SIGNATURE rejected the signature')
        else:
            vkey, vtext, vm = key, text, m
            key.verify(text, form(m))
            if what == 'message':
                vm = bytes(w.get('other_msg', b''))[:P['n']].ljust(P['n'], b'\x00')
                if vm == m:
                    vm = bytes([m[0] ^ 1]) + m[1:]
            elif what == 'signature':
                raw = base58_decode(text.encode())
                other = bytes(w.get('other_sig', b''))[:len(raw)].ljust(len(raw), b'\x00')
                if other == raw:
                    other = bytes([raw[0] ^ 1]) + raw[1:]
                pfx = next(p for p in (b'edsig', b'spsig', b'p2sig', b'BLsig', b'sig') if text.encode().startswith(p))
                vtext = base58_encode(other, pfx).decode()
            elif what in ('key', 'curve'):
                oc = P.get('other_curve', curve)
                s2 = real_secret(oc, w.get('other_secret'), salt=2)
                if oc == curve and s2 == secret:
                    s2 = real_secret(oc, bytes([secret[0] ^ 1]) + secret[1:], salt=3)
                vkey = Key.from_secret_exponent(s2, curve=CURVES[oc])
            try:
                accepted = bool(vkey.verify(vtext, form(vm)))
            except ValueError:
                accepted = False
            if accepted:
                problems.append(f'verify accepted an altered {what}')
            try:
                if _check_signature_real(vkey.public_key(), vtext, vm):
                    problems.append(f'CHECK_SIGNATURE accepted an altered {what}')
            except Exception as e:  # noqa
                problems.append(f'CHECK_SIGNATURE raised {type(e).__name__}: {e}')
    except Exception as e:  # noqa
        problems.append(f'{type(e).__name__}: {e}')
    return {'ok': not problems, 'observed': problems[:3]}


def obligations(tier):
    q = tier == 'quick'
    obs = []
    sizes = (0, 1, 3) if q else (0, 1, 2, 3, 6)
    for curve in CURVES:
        for generic in (False, True):
            for form in ('bytes', 'hex', 'hextext', '0xhextext'):
                for n in sizes:
                    if form != 'bytes' and n == 0:
                        continue
                    if form in ('hextext', '0xhextext') and (n > 2 or (generic and q)):
                        continue
                    P = {'curve': curve, 'generic': generic, 'form': form, 'n': n}
                    obs.append(Ob(f'sign/{curve}/{"generic" if generic else "specific"}/{form}/len={n}', 'bvx', sym_sign, conc_sign, P, timeout=120, opts={'W': W}, targets=TARGETS,
                                  stubs=cryptostub.STUBS, bounds=f'symbolic 32-byte secret, symbolic {n}-byte message given as {form}'))
            for alter in ('message', 'signature', 'key'):
                P = {'curve': curve, 'generic': generic, 'form': 'bytes', 'n': 2, 'alter': alter}
                obs.append(Ob(f'reject/{curve}/{"generic" if generic else "specific"}/altered-{alter}', 'bvx', sym_reject, conc_sign, P, timeout=120, opts={'W': W}, targets=TARGETS,
                              stubs=cryptostub.STUBS, bounds=f'symbolic secret and 2-byte message; the altered {alter} is any other value of the same shape'))
        for oc in CURVES:
            if oc != curve:
                P = {'curve': curve, 'generic': False, 'form': 'bytes', 'n': 1, 'alter': 'curve', 'other_curve': oc}
                obs.append(Ob(f'reject/{curve}/specific/key-of-curve-{oc}', 'bvx', sym_reject, conc_sign, P, timeout=120, opts={'W': W}, targets=TARGETS, stubs=cryptostub.STUBS,
                              bounds='curve-specific signature checked under a key of another curve'))
    return obs
