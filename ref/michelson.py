"""Reference semantics and typing for a core of Michelson, independent of pytezos' instruction classes.

Values are pairs RV(abs, ty): `abs` is the structural abstraction used by the harnesses
(('int', v), ('pair', a, b), ('some', x) / ('none',), ('left', x) / ('right', x), ('list', ...),
('string', s), ('bytes', b), ('bool', b), ('unit',), ('lambda', code), ...) and `ty` the Micheline type
expression without annotations.  Leaves may be solver proxies: only arithmetic, comparisons and
truthiness are applied to them (truthiness forks under the bvx explorer).
"""
from __future__ import annotations

from typing import Any, List


class Fail(Exception):
    """FAILWITH reached (payload = .value) or a run-time failure Michelson defines (mutez overflow ...)."""

    def __init__(self, value=None):
        super().__init__('fail')
        self.value = value


class Unsupported(Exception):
    pass


class RV:
    __slots__ = ('abs', 'ty')

    def __init__(self, abs_, ty):
        self.abs, self.ty = abs_, ty

    def __repr__(self):
        return f'RV({self.abs!r}: {self.ty!r})'


def T(prim, *args):
    e = {'prim': prim}
    if args:
        e['args'] = list(args)
    return e


INT, NAT, BOOL, UNIT, STRING, BYTES, MUTEZ, TIMESTAMP, ADDRESS, CHAIN_ID = (T(x) for x in
                                                                             ('int', 'nat', 'bool', 'unit', 'string', 'bytes', 'mutez', 'timestamp', 'address', 'chain_id'))


def _truth(x):
    return bool(x)


def _items(x):
    try:
        from vf import bvx

        if isinstance(x, bvx.SymStr):
            return list(x.b.items)
        if isinstance(x, bvx.SymBytes):
            return list(x.items)
    except Exception:  # pragma: no cover
        pass
    return list(x.encode() if isinstance(x, str) else x)


def _mk_seq(items, like_str):
    try:
        from vf import bvx

        if any(isinstance(i, bvx.SymInt) for i in items):
            return bvx.SymStr(bvx.SymBytes(items)) if like_str else bvx.SymBytes(items)
    except Exception:  # pragma: no cover
        pass
    return bytes(items).decode() if like_str else bytes(items)


def _conc(x):
    return x if isinstance(x, int) else x.__index__()


def _numeric_key(m):
    if m.ty['args'][0]['prim'] not in ('int', 'nat', 'mutez', 'timestamp'):
        raise Unsupported('collection operations on non-numeric keys (C14/C03)')


def _cmp_int(a, b):
    if _truth(a < b):
        return -1
    if _truth(a == b):
        return 0
    return 1


def literal(ty, expr):
    """Value of a PUSH literal (the subset used by the templates)."""
    p = ty['prim']
    if p in ('int', 'nat', 'mutez', 'timestamp'):
        return RV((p, int(expr['int'])), ty)
    if p == 'string':
        return RV(('string', expr['string']), ty)
    if p == 'bytes':
        return RV(('bytes', bytes.fromhex(expr['bytes'])), ty)
    if p == 'bool':
        return RV(('bool', expr['prim'] == 'True'), ty)
    if p == 'unit':
        return RV(('unit',), ty)
    if p == 'pair':
        args = expr['args']
        l = literal(ty['args'][0], args[0])
        r = literal(ty['args'][1], args[1] if len(args) == 2 else {'prim': 'Pair', 'args': args[1:]})
        return RV(('pair', l.abs, r.abs), ty)
    if p == 'option':
        if expr['prim'] == 'None':
            return RV(('none',), ty)
        return RV(('some', literal(ty['args'][0], expr['args'][0]).abs), ty)
    if p == 'list':
        return RV(('list',) + tuple(literal(ty['args'][0], e).abs for e in expr), ty)
    if p == 'lambda':
        return RV(('lambda', expr), ty)
    raise Unsupported(f'literal of {p}')


class Env:
    def __init__(self, **kw):
        self.amount = kw.get('amount', 0)
        self.balance = kw.get('balance', 0)
        self.now = kw.get('now', 0)
        self.level = kw.get('level', 0)
        self.sender = kw.get('sender')
        self.source = kw.get('source')
        self.self_address = kw.get('self_address')
        self.chain_id = kw.get('chain_id')
        self.hash = kw.get('hash')      # callable(name, data) for the hash instructions


def _comb_get(v: RV, idx: int) -> RV:
    a, t = v.abs, v.ty
    while idx >= 2:
        if a[0] != 'pair':
            raise Unsupported('GET n on a non-pair')
        a, t = a[2], t['args'][1]
        idx -= 2
    if idx == 0:
        return RV(a, t)
    if a[0] != 'pair':
        raise Unsupported('GET n on a non-pair')
    return RV(a[1], t['args'][0])


def _comb_update(v: RV, idx: int, x: RV) -> RV:
    if idx == 0:
        return x
    a, t = v.abs, v.ty
    if a[0] != 'pair':
        raise Unsupported('UPDATE n on a non-pair')
    if idx == 1:
        return RV(('pair', x.abs, a[2]), T('pair', x.ty, t['args'][1]))
    r = _comb_update(RV(a[2], t['args'][1]), idx - 2, x)
    return RV(('pair', a[1], r.abs), T('pair', t['args'][0], r.ty))


def run(code, stack: List[RV], env: Env, fuel: List[int] = None) -> List[RV]:
    """Executes `code` (Micheline JSON) on `stack` (top first); returns the new stack or raises Fail."""
    fuel = fuel if fuel is not None else [2000]
    if isinstance(code, list):
        for ins in code:
            stack = run(ins, stack, env, fuel)
        return stack
    fuel[0] -= 1
    if fuel[0] < 0:
        raise Unsupported('fuel')
    p = code['prim']
    args = code.get('args', [])

    def pop(n=1):
        nonlocal stack
        if len(stack) < n:
            raise Unsupported('stack underflow (ill-typed template)')
        xs, stack = stack[:n], stack[n:]
        return xs

    def push(*xs):
        nonlocal stack
        stack = list(xs) + stack

    if p == 'DROP':
        pop(int(args[0]['int']) if args else 1)
    elif p == 'DUP':
        n = int(args[0]['int']) if args else 1
        if n < 1 or len(stack) < n:
            raise Unsupported('DUP n')
        push(stack[n - 1])
    elif p == 'SWAP':
        a, b = pop(2)
        push(b, a)
    elif p == 'DIG':
        n = int(args[0]['int'])
        if len(stack) <= n:
            raise Unsupported('DIG')
        x = stack[n]
        stack = [x] + stack[:n] + stack[n + 1:]
    elif p == 'DUG':
        n = int(args[0]['int'])
        if len(stack) <= n:
            raise Unsupported('DUG')
        x = stack[0]
        stack = stack[1:n + 1] + [x] + stack[n + 1:]
    elif p == 'PUSH':
        push(literal(args[0], args[1]))
    elif p == 'DIP':
        n, body = (int(args[0]['int']), args[1]) if len(args) == 2 else (1, args[0])
        if len(stack) < n:
            raise Unsupported('DIP')
        top, rest = stack[:n], stack[n:]
        stack = top + run(body, rest, env, fuel)
    elif p == 'IF':
        (c,) = pop()
        stack = run(args[0] if _truth(c.abs[1]) else args[1], stack, env, fuel)
    elif p == 'IF_NONE':
        (o,) = pop()
        if o.abs[0] == 'none':
            stack = run(args[0], stack, env, fuel)
        else:
            push(RV(o.abs[1], o.ty['args'][0]))
            stack = run(args[1], stack, env, fuel)
    elif p == 'IF_LEFT':
        (o,) = pop()
        if o.abs[0] == 'left':
            push(RV(o.abs[1], o.ty['args'][0]))
            stack = run(args[0], stack, env, fuel)
        else:
            push(RV(o.abs[1], o.ty['args'][1]))
            stack = run(args[1], stack, env, fuel)
    elif p == 'IF_CONS':
        (l,) = pop()
        if len(l.abs) > 1:
            push(RV(l.abs[1], l.ty['args'][0]), RV(('list',) + tuple(l.abs[2:]), l.ty))
            stack = run(args[0], stack, env, fuel)
        else:
            stack = run(args[1], stack, env, fuel)
    elif p == 'LOOP':
        while True:
            (c,) = pop()
            if not _truth(c.abs[1]):
                break
            stack = run(args[0], stack, env, fuel)
    elif p == 'LOOP_LEFT':
        while True:
            (o,) = pop()
            if o.abs[0] == 'left':
                push(RV(o.abs[1], o.ty['args'][0]))
                stack = run(args[0], stack, env, fuel)
            else:
                push(RV(o.abs[1], o.ty['args'][1]))
                break
    elif p == 'ITER':
        (l,) = pop()
        if l.ty['prim'] == 'map':
            kt, vt = l.ty['args']
            for k, v in l.abs[1:]:
                push(RV(('pair', k, v), T('pair', kt, vt)))
                stack = run(args[0], stack, env, fuel)
        elif l.ty['prim'] in ('list', 'set'):
            for x in l.abs[1:]:
                push(RV(x, l.ty['args'][0]))
                stack = run(args[0], stack, env, fuel)
        else:
            raise Unsupported('ITER on ' + l.ty['prim'])
    elif p == 'MAP' and stack and stack[0].ty['prim'] == 'map':
        (l,) = pop()
        kt, vt = l.ty['args']
        out, nvt = [], None
        for k, v in l.abs[1:]:
            push(RV(('pair', k, v), T('pair', kt, vt)))
            stack = run(args[0], stack, env, fuel)
            (y,) = pop()
            out.append((k, y.abs))
            nvt = y.ty
        if nvt is None:
            nvt = P_map_result_type(args[0], T('pair', kt, vt), stack, env)
        push(RV(('map',) + tuple(out), T('map', kt, nvt)))
    elif p == 'MAP' and stack and stack[0].ty['prim'] == 'option':
        (o,) = pop()
        if o.abs[0] == 'none':
            push(RV(('none',), T('option', P_map_result_type(args[0], o.ty['args'][0], stack, env))))
        else:
            push(RV(o.abs[1], o.ty['args'][0]))
            stack = run(args[0], stack, env, fuel)
            (y,) = pop()
            push(RV(('some', y.abs), T('option', y.ty)))
    elif p == 'MAP':
        (l,) = pop()
        if l.ty['prim'] != 'list':
            raise Unsupported('MAP on ' + l.ty['prim'])
        out, ety = [], None
        for x in l.abs[1:]:
            push(RV(x, l.ty['args'][0]))
            stack = run(args[0], stack, env, fuel)
            (y,) = pop()
            out.append(y.abs)
            ety = y.ty
        if ety is None:
            ety = P_map_result_type(args[0], l.ty['args'][0], stack, env)
        push(RV(('list',) + tuple(out), T('list', ety)))
    elif p == 'PAIR':
        n = int(args[0]['int']) if args else 2
        xs = pop(n)
        acc = xs[-1]
        for x in reversed(xs[:-1]):
            acc = RV(('pair', x.abs, acc.abs), T('pair', x.ty, acc.ty))
        push(acc)
    elif p == 'UNPAIR':
        n = int(args[0]['int']) if args else 2
        (v,) = pop()
        out = []
        for _ in range(n - 1):
            if v.abs[0] != 'pair':
                raise Unsupported('UNPAIR')
            out.append(RV(v.abs[1], v.ty['args'][0]))
            v = RV(v.abs[2], v.ty['args'][1])
        out.append(v)
        push(*out)
    elif p == 'CAR':
        (v,) = pop()
        push(RV(v.abs[1], v.ty['args'][0]))
    elif p == 'CDR':
        (v,) = pop()
        push(RV(v.abs[2], v.ty['args'][1]))
    elif p == 'GET' and args:
        (v,) = pop()
        push(_comb_get(v, int(args[0]['int'])))
    elif p in ('GET', 'MEM') and len(stack) >= 2 and stack[1].ty['prim'] in ('map', 'set'):
        # collections with numeric keys (kept in ascending order)
        k, m = pop(2)
        _numeric_key(m)
        found = None
        for e in m.abs[1:]:
            ek, ev = (e[0], e[1]) if m.ty['prim'] == 'map' else (e, None)
            if _truth(ek[1] == k.abs[1]):
                found = (ek, ev)
                break
        if p == 'MEM':
            push(RV(('bool', found is not None), BOOL))
        elif m.ty['prim'] != 'map':
            raise Unsupported('GET on a set')
        else:
            vt = m.ty['args'][1]
            push(RV(('some', found[1]) if found is not None else ('none',), T('option', vt)))
    elif p in ('UPDATE', 'GET_AND_UPDATE') and len(stack) >= 3 and stack[2].ty['prim'] in ('map', 'set'):
        k, x, m = pop(3)
        _numeric_key(m)
        is_map = m.ty['prim'] == 'map'
        if p == 'GET_AND_UPDATE' and not is_map:
            raise Unsupported('GET_AND_UPDATE on a set')
        keep, old = [], None
        for e in m.abs[1:]:
            ek = e[0] if is_map else e
            if _truth(ek[1] == k.abs[1]):
                old = e
            else:
                keep.append(e)
        if is_map:
            insert = (k.abs, x.abs[1]) if x.abs[0] == 'some' else None
        else:
            insert = k.abs if _truth(x.abs[1]) else None
        if insert is not None:
            pos = 0
            for e in keep:
                ek = e[0] if is_map else e
                if _truth(ek[1] < k.abs[1]):
                    pos += 1
            keep.insert(pos, insert)
        push(RV((m.ty['prim'],) + tuple(keep), m.ty))
        if p == 'GET_AND_UPDATE':
            push(RV(('some', old[1]) if old is not None else ('none',), T('option', m.ty['args'][1])))
    elif p == 'EMPTY_MAP':
        push(RV(('map',), T('map', args[0], args[1])))
    elif p == 'EMPTY_SET':
        push(RV(('set',), T('set', args[0])))
    elif p == 'UPDATE' and args:
        x, v = pop(2)
        push(_comb_update(v, int(args[0]['int']), x))
    elif p == 'LEFT':
        (v,) = pop()
        push(RV(('left', v.abs), T('or', v.ty, args[0])))
    elif p == 'RIGHT':
        (v,) = pop()
        push(RV(('right', v.abs), T('or', args[0], v.ty)))
    elif p == 'SOME':
        (v,) = pop()
        push(RV(('some', v.abs), T('option', v.ty)))
    elif p == 'NONE':
        push(RV(('none',), T('option', args[0])))
    elif p == 'UNIT':
        push(RV(('unit',), UNIT))
    elif p == 'NIL':
        push(RV(('list',), T('list', args[0])))
    elif p == 'CONS':
        x, l = pop(2)
        push(RV(('list', x.abs) + tuple(l.abs[1:]), l.ty))
    elif p == 'SIZE':
        (v,) = pop()
        if v.ty['prim'] in ('list', 'set', 'map'):
            push(RV(('nat', len(v.abs) - 1), NAT))
        else:
            push(RV(('nat', len(_items(v.abs[1]))), NAT))
    elif p == 'CONCAT':
        (a,) = pop()
        if a.ty['prim'] == 'list':
            ety = a.ty['args'][0]
            out = []
            for x in a.abs[1:]:
                out.extend(_items(x[1]))
            push(RV((ety['prim'], _mk_seq(out, ety['prim'] == 'string')), ety))
        else:
            (b,) = pop()
            push(RV((a.ty['prim'], _mk_seq(_items(a.abs[1]) + _items(b.abs[1]), a.ty['prim'] == 'string')), a.ty))
    elif p == 'SLICE':
        off, ln, s = pop(3)
        items = _items(s.abs[1])
        o, n = off.abs[1], ln.abs[1]
        if _truth(o + n <= len(items)):
            oi, ni = _conc(o), _conc(n)
            push(RV(('some', (s.ty['prim'], _mk_seq(items[oi:oi + ni], s.ty['prim'] == 'string'))), T('option', s.ty)))
        else:
            push(RV(('none',), T('option', s.ty)))
    elif p in ('ADD', 'SUB', 'MUL'):
        a, b = pop(2)
        ta, tb = a.ty['prim'], b.ty['prim']
        x, y = a.abs[1], b.abs[1]
        r = {'ADD': x + y, 'SUB': x - y, 'MUL': x * y}[p]
        if p == 'SUB':
            rt = 'timestamp' if (ta, tb) == ('timestamp', 'int') else ('mutez' if ta == 'mutez' else 'int')
        elif 'timestamp' in (ta, tb):
            rt = 'timestamp'
        elif 'mutez' in (ta, tb):
            rt = 'mutez'
        elif ta == tb == 'nat':
            rt = 'nat'
        else:
            rt = 'int'
        if rt == 'mutez' and _truth((r < 0) | (r > (1 << 63) - 1) if not isinstance(r, int) else (r < 0 or r > (1 << 63) - 1)):
            raise Fail()
        push(RV((rt, r), T(rt)))
    elif p == 'INT':
        (a,) = pop()
        if a.ty['prim'] != 'nat':
            raise Unsupported('INT on ' + a.ty['prim'])
        push(RV(('int', a.abs[1]), INT))
    elif p == 'ISNAT':
        (a,) = pop()
        if a.ty['prim'] != 'int':
            raise Unsupported('ISNAT on ' + a.ty['prim'])
        if _truth(a.abs[1] >= 0):
            push(RV(('some', ('nat', a.abs[1])), T('option', NAT)))
        else:
            push(RV(('none',), T('option', NAT)))
    elif p == 'EDIV':
        a, b = pop(2)
        ta, tb = a.ty['prim'], b.ty['prim']
        rt = {('int', 'int'): (INT, NAT), ('int', 'nat'): (INT, NAT), ('nat', 'int'): (INT, NAT), ('nat', 'nat'): (NAT, NAT),
              ('mutez', 'nat'): (MUTEZ, MUTEZ), ('mutez', 'mutez'): (NAT, MUTEZ)}.get((ta, tb))
        if rt is None:
            raise Unsupported(f'EDIV {ta} {tb}')
        res_t = T('option', T('pair', rt[0], rt[1]))
        d = b.abs[1]
        if not isinstance(d, int):
            raise Unsupported('EDIV by a symbolic divisor (C16)')
        if d == 0:
            push(RV(('none',), res_t))
        else:
            if d < 0:
                raise Unsupported('EDIV by a negative constant (C16)')
            x = a.abs[1]
            q, r = x // d, x % d          # d > 0: floor division is the Euclidean one
            push(RV(('some', ('pair', (rt[0]['prim'], q), (rt[1]['prim'], r))), res_t))
    elif p == 'NEG':
        (a,) = pop()
        push(RV(('int', -a.abs[1]), INT))
    elif p == 'ABS':
        (a,) = pop()
        push(RV(('nat', abs(a.abs[1])), NAT))
    elif p in ('EQ', 'NEQ', 'LT', 'GT', 'LE', 'GE'):
        (a,) = pop()
        x = a.abs[1]
        push(RV(('bool', {'EQ': x == 0, 'NEQ': x != 0, 'LT': x < 0, 'GT': x > 0, 'LE': x <= 0, 'GE': x >= 0}[p]), BOOL))
    elif p == 'COMPARE':
        a, b = pop(2)
        if a.ty['prim'] not in ('int', 'nat', 'mutez', 'timestamp'):
            raise Unsupported('COMPARE on ' + a.ty['prim'])
        push(RV(('int', _cmp_int(a.abs[1], b.abs[1])), INT))
    elif p == 'NOT' and stack and stack[0].ty['prim'] == 'bool':
        (a,) = pop()
        push(RV(('bool', not _truth(a.abs[1])), BOOL))
    elif p in ('AND', 'OR', 'XOR') and stack and stack[0].ty['prim'] == 'bool':
        a, b = pop(2)
        x, y = _truth(a.abs[1]), _truth(b.abs[1])
        push(RV(('bool', {'AND': x and y, 'OR': x or y, 'XOR': x != y}[p]), BOOL))
    elif p == 'LAMBDA':
        push(RV(('lambda', args[2]), T('lambda', args[0], args[1])))
    elif p == 'LAMBDA_REC':
        # body :: ty1 : lambda ty1 ty2 : [] => ty2 : []   (the argument on top, the lambda itself below)
        push(RV(('lambda-rec', args[2]), T('lambda', args[0], args[1])))
    elif p == 'EXEC':
        x, f = pop(2)
        if f.abs[0] == 'lambda-applied':
            # (APPLY a f) x  =  f (Pair a x)
            inner, a_abs = f.abs[1], f.abs[2]
            a_ty = f.ty.get('_applied_ty')
            arg = RV(('pair', a_abs, x.abs), T('pair', a_ty, x.ty))
            res = run(inner[1], [arg], env, fuel)
        elif f.abs[0] == 'lambda-rec':
            res = run(f.abs[1], [x, f], env, fuel)
        else:
            res = run(f.abs[1], [x], env, fuel)
        if len(res) != 1:
            raise Unsupported('lambda body left a wrong stack')
        push(res[0])
    elif p == 'APPLY':
        x, f = pop(2)
        pty = f.ty['args'][0]
        t = T('lambda', pty['args'][1], f.ty['args'][1])
        t2 = dict(t)
        t2['_applied_ty'] = x.ty
        push(RV(('lambda-applied', f.abs, x.abs), t2))
    elif p == 'FAILWITH':
        (v,) = pop()
        raise Fail(v)
    elif p == 'AMOUNT':
        push(RV(('mutez', env.amount), MUTEZ))
    elif p == 'BALANCE':
        push(RV(('mutez', env.balance), MUTEZ))
    elif p == 'NOW':
        push(RV(('timestamp', env.now), TIMESTAMP))
    elif p == 'LEVEL':
        push(RV(('nat', env.level), NAT))
    elif p == 'SENDER':
        push(RV(('address', env.sender), ADDRESS))
    elif p == 'SOURCE':
        push(RV(('address', env.source), ADDRESS))
    elif p == 'SELF_ADDRESS':
        push(RV(('address', env.self_address), ADDRESS))
    elif p == 'CHAIN_ID':
        push(RV(('chain_id', env.chain_id), CHAIN_ID))
    elif p in ('BLAKE2B', 'SHA256', 'SHA512', 'SHA3', 'KECCAK'):
        (a,) = pop()
        push(RV(('bytes', env.hash(p, a.abs[1])), BYTES))
    else:
        raise Unsupported(p)
    return stack


def P_map_result_type(body, elt_ty, stack, env):
    """Result element type of MAP over an empty list: obtained by running the body on a dummy of the element type."""
    d = dummy(elt_ty)
    try:
        res = run(body, [d] + list(stack), env, [200])
        return res[0].ty
    except Fail:
        raise Unsupported('cannot infer the MAP body type on an empty collection')


def dummy(ty):
    p = ty['prim']
    if p in ('int', 'nat', 'mutez', 'timestamp'):
        return RV((p, 0), ty)
    if p == 'string':
        return RV(('string', ''), ty)
    if p == 'bytes':
        return RV(('bytes', b''), ty)
    if p == 'bool':
        return RV(('bool', False), ty)
    if p == 'unit':
        return RV(('unit',), ty)
    if p == 'pair':
        a, b = dummy(ty['args'][0]), dummy(ty['args'][1])
        return RV(('pair', a.abs, b.abs), ty)
    if p == 'option':
        return RV(('none',), ty)
    if p == 'list':
        return RV(('list',), ty)
    if p == 'or':
        return RV(('left', dummy(ty['args'][0]).abs), ty)
    raise Unsupported('dummy of ' + p)
